#!/usr/bin/env python3
"""Regenerates /verif/MANIFEST.json from the table below (run from /verif)."""
import json, os, subprocess

ALL = ["C%02d" % i for i in range(1, 20)]

# id -> (technique, level text, level note, design section)
CHECKS = {
 "C19": ("reference-model monitor: exact integer orientation oracle over exhaustive lattice + biased random kernels calls",
         "Every Raycast / IntersectsSegment (both operand orders) / ContainsSegment / ContainsPoint / CollinearPoint / Rect call made by the workload is judged by an independent exact-integer oracle; the small lattice is enumerated completely under six affine re-encodings, the 2^20 lattice is sampled with degeneracy-biased generators. Held-on-what-was-observed, not a proof.",
         "Trusted: internal/exact int64 predicates (cross-checked against a big.Rat implementation), exactness of float arithmetic on the stated coordinate domain.", "6 C19"),
}
PENDING = {}

def main():
    hooks_commits = []
    try:
        out = subprocess.run(["git", "-C", "/repo", "log", "--format=%H %s"], capture_output=True, text=True).stdout
        for line in out.splitlines():
            h, _, s = line.partition(" ")
            if s.startswith("verif hook:"):
                hooks_commits.append(h)
    except Exception:
        pass
    checks = []
    for pid in ALL:
        if pid not in CHECKS:
            continue
        tech, text, note, ref = CHECKS[pid]
        checks.append({
            "property_id": pid,
            "quick_cmd": "./check.sh %s quick" % pid,
            "thorough_cmd": "./check.sh %s thorough" % pid,
            "evidence_file": "/verif/evidence/%s.json" % pid,
            "replay_cmd_template": "./replay.sh {path}",
            "engine": "verif",
            "level_claimed": {"category": "exploration", "text": text, "design_ref": "DESIGN.md section " + ref},
            "level_note": note,
            "technique": tech,
        })
    na = [{"property_id": p, "reason": PENDING.get(p, "check not built yet (work in progress in this repository state); nothing is claimed for it")}
          for p in ALL if p not in CHECKS]
    m = {
        "version": 1,
        "setup_cmd": "./setup.sh",
        "hooks": {
            "guard": "verif",
            "enable": "go build -tags verif (done by ./check.sh; /repo is compiled from its working tree through the replace directive in /verif/go.mod)",
            "baseline_off_cmd": "cd /repo && GOFLAGS=-mod=mod GOPROXY=off GOSUMDB=off go test -vet=off -count=1 -timeout 25m ./...",
            "source_commits": hooks_commits,
            "add_only": True,
        },
        "engines": [{"name": "verif", "path": "/verif/cmd/verif", "serves_properties": [c["property_id"] for c in checks],
                     "kind_free_text": "Go driver that forks 16 worker processes per check; workers drive the real library with generated workloads and judge every observation with reference-model / metamorphic / race-detector monitors"}],
        "checks": checks,
        "not_applicable": na,
        "notes": "Runtime monitoring only. Known findings are listed in /verif/known_findings.json; see DESIGN.md.",
    }
    json.dump(m, open("MANIFEST.json", "w"), indent=1)
    print("wrote MANIFEST.json with", len(checks), "checks;", len(na), "not claimed")

main()
