package props

import (
	"encoding/json"
	"fmt"
	"math"

	"github.com/tidwall/geojson"
	"github.com/tidwall/geojson/geometry"

	"verif/internal/gen"
	"verif/internal/mon"
	"verif/internal/refjson"
)

// C07: Parse decodes exactly what the document says, or rejects it.

type c07Case struct {
	Text     string `json:"text"`
	Class    string `json:"reference_class"`
	Reason   string `json:"reference_reason,omitempty"`
	Mutation string `json:"mutation,omitempty"`
	Got      string `json:"library"`
	Detail   string `json:"detail,omitempty"`
}

func sameF(a, b float64) bool {
	if math.IsNaN(a) && math.IsNaN(b) {
		return true
	}
	return math.Float64bits(a) == math.Float64bits(b) || (a == 0 && b == 0 && math.Signbit(a) == math.Signbit(b))
}

func cmpSeries(s geometry.Series, ps []refjson.Pos, what string) error {
	if s.NumPoints() != len(ps) {
		return fmt.Errorf("%s: %d positions, document has %d", what, s.NumPoints(), len(ps))
	}
	for i, p := range ps {
		q := s.PointAt(i)
		if !sameF(q.X, p.X) || !sameF(q.Y, p.Y) {
			return fmt.Errorf("%s: position %d is (%v,%v), document says (%v,%v)", what, i, q.X, q.Y, p.X, p.Y)
		}
	}
	return nil
}

// cmpDoc compares the library's object with the reference decoding: type,
// nesting, child order, every x,y.
func cmpDoc(d *refjson.Doc, o geojson.Object, circles bool) error {
	switch d.Type {
	case "Point":
		var p geometry.Point
		switch v := o.(type) {
		case *geojson.Point:
			p = v.Base()
		case *geojson.SimplePoint:
			p = v.Base()
		default:
			return fmt.Errorf("Point decoded as %T", o)
		}
		if !sameF(p.X, d.Points[0].X) || !sameF(p.Y, d.Points[0].Y) {
			return fmt.Errorf("point is (%v,%v), document says (%v,%v)", p.X, p.Y, d.Points[0].X, d.Points[0].Y)
		}
		// the third ordinate through the accessors
		z, isPt := geojson.IsPoint(o)
		wantZ := 0.0
		if len(d.Points[0].Extra) > 0 {
			wantZ = d.Points[0].Extra[0]
		}
		if !isPt {
			return fmt.Errorf("IsPoint is false for a decoded Point")
		}
		if pt, ok := o.(*geojson.Point); ok {
			if !sameF(pt.Z(), wantZ) || !sameF(z, wantZ) {
				return fmt.Errorf("point Z()=%v IsPoint z=%v, document says %v", pt.Z(), z, wantZ)
			}
			if pt.IsSimple() && len(d.Points[0].Extra) > 0 {
				return fmt.Errorf("IsSimple() is true for a point with %d ordinates", 2+len(d.Points[0].Extra))
			}
		} else if len(d.Points[0].Extra) > 0 {
			return fmt.Errorf("a point with %d ordinates was decoded as a SimplePoint", 2+len(d.Points[0].Extra))
		}
	case "LineString":
		v, ok := o.(*geojson.LineString)
		if !ok {
			return fmt.Errorf("LineString decoded as %T", o)
		}
		return cmpSeries(v.Base(), d.Points, "line")
	case "Polygon":
		switch v := o.(type) {
		case *geojson.Polygon:
			b := v.Base()
			if len(d.Rings) != 1+len(b.Holes) {
				return fmt.Errorf("polygon has %d rings, document has %d", 1+len(b.Holes), len(d.Rings))
			}
			if err := cmpSeries(b.Exterior, d.Rings[0], "exterior"); err != nil {
				return err
			}
			for i, h := range b.Holes {
				if err := cmpSeries(h, d.Rings[i+1], fmt.Sprintf("hole %d", i)); err != nil {
					return err
				}
			}
		case *geojson.Rect:
			if len(d.Rings) != 1 {
				return fmt.Errorf("Rect for a polygon with %d rings", len(d.Rings))
			}
			return cmpSeries(v.Base(), d.Rings[0], "rect ring")
		default:
			return fmt.Errorf("Polygon decoded as %T", o)
		}
	case "MultiPoint", "MultiLineString", "MultiPolygon", "GeometryCollection", "FeatureCollection":
		ok := false
		switch o.(type) {
		case *geojson.MultiPoint:
			ok = d.Type == "MultiPoint"
		case *geojson.MultiLineString:
			ok = d.Type == "MultiLineString"
		case *geojson.MultiPolygon:
			ok = d.Type == "MultiPolygon"
		case *geojson.GeometryCollection:
			ok = d.Type == "GeometryCollection"
		case *geojson.FeatureCollection:
			ok = d.Type == "FeatureCollection"
		}
		if !ok {
			return fmt.Errorf("%s decoded as %T", d.Type, o)
		}
		ch := o.(geojson.Collection).Children()
		if len(ch) != len(d.Children) {
			return fmt.Errorf("%s has %d children, document has %d", d.Type, len(ch), len(d.Children))
		}
		for i := range ch {
			if err := cmpDoc(d.Children[i], ch[i], circles); err != nil {
				return fmt.Errorf("child %d: %v", i, err)
			}
		}
	case "Feature":
		if d.Circle != nil && circles {
			v, ok := o.(*geojson.Circle)
			if !ok {
				return fmt.Errorf("Circle convention decoded as %T", o)
			}
			c := v.Center()
			p := d.Children[0].Points[0]
			if !sameF(c.X, p.X) || !sameF(c.Y, p.Y) {
				return fmt.Errorf("circle centre (%v,%v), document says (%v,%v)", c.X, c.Y, p.X, p.Y)
			}
			want := d.Circle.Radius
			if d.Circle.Units == "km" {
				want *= 1000
			}
			if !sameF(v.Meters(), want) {
				return fmt.Errorf("circle radius %v, document says %v", v.Meters(), want)
			}
			return nil
		}
		v, ok := o.(*geojson.Feature)
		if !ok {
			return fmt.Errorf("Feature decoded as %T", o)
		}
		return cmpDoc(d.Children[0], v.Base(), circles)
	}
	return nil
}

func c07Judge(c *mon.Ctx, text, mutation string, opts *geojson.ParseOptions) refjson.Result {
	res := refjson.Classify(text)
	c.SetCase(func() interface{} {
		return c07Case{Text: text, Class: res.Class.String(), Reason: res.Reason, Mutation: mutation}
	})
	c.Try(func() {
		o, err := geojson.Parse(text, opts)
		c.Eval()
		mk := func(got, detail string) c07Case {
			return c07Case{Text: text, Class: res.Class.String(), Reason: res.Reason, Mutation: mutation, Got: got, Detail: detail}
		}
		if (o == nil) == (err == nil) {
			c.Violation("object-xor-error", "Parse returned both or neither of object and error", mk(fmt.Sprintf("obj=%v err=%v", o != nil, err), ""))
			return
		}
		switch res.Class {
		case refjson.WellFormed:
			c.Count("wellformed")
			if err != nil {
				if res.LaterLonger && err.Error() == "invalid coordinates" {
					c.KnownOrViolation("F11", "rejected-wellformed", "a well-formed document whose later position has more ordinates than a two-ordinate first position was rejected", mk("error: "+err.Error(), ""))
					return
				}
				c.Violation("rejected-wellformed", "a well-formed document was rejected", mk("error: "+err.Error(), ""))
				return
			}
			if e := cmpDoc(res.Doc, o, opts == nil || !opts.DisableCircleType); e != nil {
				c.Violation("decoded-differently", "accepted document decoded differently from the reference reader", mk("accepted", e.Error()))
			}
		case refjson.Defect:
			c.Count("defect")
			c.Count("defect: " + trimReason(res.Reason))
			if err == nil {
				c.Violation("accepted-defect", "a document with a listed structural defect was accepted", mk("accepted: "+truncate(o.JSON(), 200), ""))
			}
		default:
			c.Count("unclassified")
			c.Count("unclassified: " + res.Reason)
		}
	})
	return res
}

func trimReason(s string) string {
	if i := indexOf(s, ": "); i > 0 && i < 40 {
		return s[:i]
	}
	if len(s) > 60 {
		return s[:60]
	}
	return s
}

func indexOf(s, sub string) int {
	for i := 0; i+len(sub) <= len(s); i++ {
		if s[i:i+len(sub)] == sub {
			return i
		}
	}
	return -1
}

func c07Run(c *mon.Ctx) {
	n := c.Pick(600000, 12000000)
	o := gen.DefaultDocOpts()
	o.Circles = true
	for i := 0; i < n; i++ {
		if !c.Mine(i) {
			continue
		}
		r := c.SubRng("doc", i)
		oo := *o
		oo.MaxDepth = 1 + r.Intn(5)
		oo.MaxKids = 1 + r.Intn(4)
		tree := gen.GenDoc(r, &oo, 0)
		text := gen.Render(r, tree, i%2 == 0, i%3 == 0)
		if i%5 == 0 {
			text = []string{" ", "\n\t", "\r\n "}[r.Intn(3)] + text + []string{" ", "\n", "\t\r\n"}[r.Intn(3)]
		}
		// acceptance and the decoded values do not depend on the options either
		// (the representation options only change the Go kind, which cmpDoc allows)
		var popts *geojson.ParseOptions
		switch i % 6 {
		case 1:
			popts = &geojson.ParseOptions{IndexChildren: r.Intn(3), IndexGeometry: r.Intn(3), IndexGeometryKind: geometry.IndexKind(r.Intn(3))}
		case 3:
			po := baseOpts()
			po.AllowRects, po.AllowSimplePoints = true, r.Intn(2) == 0
			popts = &po
		case 5:
			po := baseOpts()
			po.AllowSimplePoints, po.DisableCircleType = r.Intn(2) == 0, r.Intn(2) == 0
			po.IndexChildren, po.IndexGeometry = 1, 1
			popts = &po
		}
		if popts != nil {
			c.Count("non_default_options")
		}
		res := c07Judge(c, text, "", popts)
		if res.Class == refjson.WellFormed {
			c.NonTrivial(uint64(mon.NewH().S(text)))
		}
		if i < 48 && i%16 == c.Shard && c.WantSample() {
			c.Sample(map[string]interface{}{"text": truncate(text, 400), "class": res.Class.String()})
		}
		// one mutant per structural defect class, at a random nesting level
		for mi, name := range gen.MutationNames {
			if (i+mi)%3 != 0 && !c.Thorough() {
				continue
			}
			mt, ok := gen.Mutate(r, tree, name)
			if !ok {
				continue
			}
			mtext := gen.Render(r, mt, i%2 == 1, false)
			mres := c07Judge(c, mtext, name, popts)
			if mres.Class == refjson.Defect {
				c.Count("mutant " + name + " -> defect")
				c.NonTrivial(uint64(mon.NewH().S(mtext)))
			} else {
				c.Count("mutant " + name + " -> " + mres.Class.String())
			}
		}
		for ti, name := range gen.TextMutations {
			if (i+ti)%4 != 0 && !c.Thorough() {
				continue
			}
			c07Judge(c, gen.MutateText(r, text, name), "text:"+name, popts)
		}
	}
}

func c07Replay(kind string, raw json.RawMessage) (bool, string) {
	var cs c07Case
	if err := json.Unmarshal(raw, &cs); err != nil {
		return false, err.Error()
	}
	p := mon.Lookup("C07")
	n, known, first := mon.ReplayRun(p, func(c *mon.Ctx) { c07Judge(c, cs.Text, cs.Mutation, nil) })
	return n > 0, fmt.Sprintf("violations=%d known=%v %s", n, known, first)
}

func init() {
	must := []string{"wellformed", "defect", "unclassified", "non_default_options"}
	for _, m := range gen.MutationNames {
		must = append(must, "mutant "+m+" -> defect")
	}
	mon.Register(&mon.Prop{
		ID:          "C07",
		Rule:        "grammar-generated GeoJSON documents (all nine types and the Circle convention, nesting <= 5, 2-4-D and mixed-dimension positions, null ordinates, duplicate and \\u-escaped reserved members, shuffled member order, foreign members of any JSON shape, random whitespace, unusual number spellings); for each, mutants for every structural defect class of the statement at a random nesting level, and byte-level corruptions (trailing/leading bytes, truncation, dropped/swapped bytes, random bytes, BOM, two documents). Every text is classified by the independent reference reader: well-formed => must be accepted and decode to the same type/nesting/child order/x,y; listed defect => must be rejected with error and nil object; otherwise not asserted. Non-trivial = distinct text classified well-formed or defect.",
		Assumptions: []string{"reference reader: internal/refjson on encoding/json's token stream (last duplicate member wins)", "texts the statement classifies on neither side (positions with more than four ordinates, Circle convention with non-numeric radius or unknown units, duplicate members inside properties) are counted as unclassified and not asserted"},
		Run:         c07Run,
		Replay:      c07Replay,
		MustSee:     must,
	})
}
