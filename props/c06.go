package props

import (
	"encoding/json"
	"fmt"
	"reflect"

	"github.com/tidwall/geojson"
	"github.com/tidwall/geojson/geometry"

	"verif/internal/gen"
	"verif/internal/mon"
	"verif/internal/refjson"
)

// C06: Parse -> JSON -> Parse is a lossless fixpoint.

type c06Case struct {
	Text    string `json:"text"`
	Options string `json:"options"`
	JSON1   string `json:"json1,omitempty"`
	JSON2   string `json:"json2,omitempty"`
	Detail  string `json:"detail,omitempty"`
}

type optSet struct {
	Name string
	O    *geojson.ParseOptions
}

func baseOpts() geojson.ParseOptions { return *geojson.DefaultParseOptions }

func c06OptSets() []optSet {
	mk := func(name string, f func(o *geojson.ParseOptions)) optSet {
		o := baseOpts()
		f(&o)
		return optSet{name, &o}
	}
	return []optSet{
		{"nil(default)", nil},
		mk("simplepoints", func(o *geojson.ParseOptions) { o.AllowSimplePoints = true }),
		mk("rects", func(o *geojson.ParseOptions) { o.AllowRects = true }),
		mk("simplepoints+rects", func(o *geojson.ParseOptions) { o.AllowSimplePoints, o.AllowRects = true, true }),
		mk("noindex", func(o *geojson.ParseOptions) { o.IndexChildren, o.IndexGeometry = 0, 0 }),
		mk("index@1-rtree", func(o *geojson.ParseOptions) {
			o.IndexChildren, o.IndexGeometry, o.IndexGeometryKind = 1, 1, geometry.RTree
		}),
		mk("nocircle", func(o *geojson.ParseOptions) { o.DisableCircleType = true }),
	}
}

// posEq compares one position of the input with the output under the
// declared dimensionality dims.
func posEq(in, out refjson.Pos, dims int) error {
	if !sameF(in.X, out.X) || !sameF(in.Y, out.Y) {
		return fmt.Errorf("x,y (%v,%v) became (%v,%v)", in.X, in.Y, out.X, out.Y)
	}
	if out.N != dims {
		return fmt.Errorf("position has %d ordinates in the output, declared dimensionality %d", out.N, dims)
	}
	for i := 0; i < dims-2; i++ {
		if i < len(in.Extra) {
			if !sameF(in.Extra[i], out.Extra[i]) {
				return fmt.Errorf("ordinate %d: %v became %v", i+2, in.Extra[i], out.Extra[i])
			}
		} else if i < len(out.Extra) && out.Extra[i] != 0 {
			// the input position had no such ordinate: the output may only pad
			// with a neutral zero, not with a value taken from somewhere else
			return fmt.Errorf("ordinate %d: absent in the input, %v in the output", i+2, out.Extra[i])
		}
	}
	return nil
}

func seqEq(in, out [][]refjson.Pos) error {
	if len(in) != len(out) {
		return fmt.Errorf("%d rings/lines became %d", len(in), len(out))
	}
	dims := -1
	for i := range in {
		if len(in[i]) != len(out[i]) {
			return fmt.Errorf("%d positions became %d", len(in[i]), len(out[i]))
		}
		for j := range in[i] {
			if dims == -1 {
				dims = min(in[i][j].N, 4)
			}
			if err := posEq(in[i][j], out[i][j], dims); err != nil {
				return fmt.Errorf("ring/line %d position %d: %v", i, j, err)
			}
		}
	}
	return nil
}

func foreignEq(in, out []refjson.Member, feature bool) error {
	want := in
	if feature {
		has := false
		for _, m := range in {
			if m.Key == "properties" {
				has = true
			}
		}
		if !has {
			want = append(append([]refjson.Member{}, in...), refjson.Member{Key: "properties", Canon: "{}"})
		}
	}
	if len(want) != len(out) {
		return fmt.Errorf("foreign members %v became %v", keys(want), keys(out))
	}
	for i := range want {
		if want[i] != out[i] {
			return fmt.Errorf("foreign member %d: %s:%s became %s:%s", i, want[i].Key, want[i].Canon, out[i].Key, out[i].Canon)
		}
	}
	return nil
}

func keys(m []refjson.Member) []string {
	var out []string
	for _, x := range m {
		out = append(out, x.Key)
	}
	return out
}

// errCircle marks a loss that happened inside an object parsed as Circle.
type lossErr struct {
	circle bool
	msg    string
}

func (e *lossErr) Error() string { return e.msg }

// docEq compares the input document with the decoded output.
func docEq(in, out *refjson.Doc, circles bool, top bool) *lossErr {
	if in.Type != out.Type {
		return &lossErr{false, fmt.Sprintf("type %s became %s", in.Type, out.Type)}
	}
	isCircle := in.Type == "Feature" && in.Circle != nil && circles
	wrap := func(err error) *lossErr {
		if err == nil {
			return nil
		}
		return &lossErr{isCircle, err.Error()}
	}
	if isCircle {
		// the convention's own content must survive: centre, radius in metres
		if out.Circle == nil {
			return &lossErr{false, "Circle feature lost its circle properties"}
		}
		ip, op := in.Children[0].Points[0], out.Children[0].Points[0]
		if !sameF(ip.X, op.X) || !sameF(ip.Y, op.Y) {
			return &lossErr{false, "circle centre changed"}
		}
		want := in.Circle.Radius
		if in.Circle.Units == "km" {
			want *= 1000
		}
		got := out.Circle.Radius
		if out.Circle.Units == "km" {
			got *= 1000
		}
		if !sameF(want, got) {
			return &lossErr{false, fmt.Sprintf("circle radius %v m became %v m", want, got)}
		}
		// everything else is outside the convention: losing it is F10
		strip := func(ms []refjson.Member) []refjson.Member {
			var o []refjson.Member
			for _, m := range ms {
				if m.Key != "properties" {
					o = append(o, m)
				}
			}
			return o
		}
		if err := foreignEq(strip(in.Foreign), strip(out.Foreign), false); err != nil {
			return &lossErr{true, err.Error()}
		}
		others := func(d *refjson.Doc) []refjson.Member {
			var o []refjson.Member
			if p := d.Raw.Get("properties"); p != nil {
				for _, m := range p.Mem {
					if m.Key != "type" && m.Key != "radius" && m.Key != "radius_units" {
						o = append(o, refjson.Member{Key: m.Key, Canon: m.Val.Canon()})
					}
				}
			}
			return o
		}
		if err := foreignEq(others(in), others(out), false); err != nil {
			return &lossErr{true, "properties: " + err.Error()}
		}
		if e := docEq(in.Children[0], out.Children[0], circles, false); e != nil {
			return &lossErr{true, "circle geometry: " + e.msg}
		}
		return nil
	}
	if in.Raw != nil && out.Raw != nil {
		if err := foreignEq(in.Foreign, out.Foreign, in.Type == "Feature"); err != nil {
			return wrap(err)
		}
	}
	switch in.Type {
	case "Point":
		if len(out.Points) != 1 {
			return &lossErr{false, "point lost"}
		}
		return wrap(posEq(in.Points[0], out.Points[0], min(in.Points[0].N, 4)))
	case "LineString":
		return wrap(seqEq([][]refjson.Pos{in.Points}, [][]refjson.Pos{out.Points}))
	case "Polygon":
		return wrap(seqEq(in.Rings, out.Rings))
	}
	if len(in.Children) != len(out.Children) {
		return &lossErr{false, fmt.Sprintf("%d children became %d", len(in.Children), len(out.Children))}
	}
	for i := range in.Children {
		if e := docEq(in.Children[i], out.Children[i], circles, false); e != nil {
			e.msg = fmt.Sprintf("child %d: %s", i, e.msg)
			return e
		}
	}
	return nil
}

var c06Probes []geojson.Object

func probes() []geojson.Object {
	if c06Probes != nil {
		return c06Probes
	}
	texts := []string{
		`{"type":"Point","coordinates":[0,0]}`,
		`{"type":"Point","coordinates":[2,-3]}`,
		`{"type":"Polygon","coordinates":[[[-10,-10],[10,-10],[10,10],[-10,10],[-10,-10]]]}`,
		`{"type":"Polygon","coordinates":[[[-4,-4],[4,-4],[4,4],[-4,4],[-4,-4]],[[-1,-1],[1,-1],[1,1],[-1,1],[-1,-1]]]}`,
		`{"type":"Polygon","coordinates":[[[0,0],[6,0],[6,2],[2,2],[2,6],[0,6],[0,0]]]}`,
		`{"type":"LineString","coordinates":[[-8,-8],[8,8],[8,-8]]}`,
		`{"type":"LineString","coordinates":[[-9,0],[9,0]]}`,
		`{"type":"MultiPoint","coordinates":[[1,1],[-2,5],[3,-6]]}`,
		`{"type":"GeometryCollection","geometries":[{"type":"Point","coordinates":[5,5]},{"type":"Polygon","coordinates":[[[-3,0],[0,3],[3,0],[0,-3],[-3,0]]]}]}`,
		`{"type":"Feature","geometry":{"type":"Polygon","coordinates":[[[-180,-90],[180,-90],[180,90],[-180,90],[-180,-90]]]},"properties":{}}`,
		`{"type":"FeatureCollection","features":[{"type":"Feature","geometry":{"type":"LineString","coordinates":[[-5,-5],[-5,5],[5,5]]},"properties":{}}]}`,
		`{"type":"MultiPolygon","coordinates":[[[[-7,-7],[-5,-7],[-5,-5],[-7,-5],[-7,-7]]],[[[5,5],[7,5],[7,7],[5,7],[5,5]]]]}`,
	}
	for _, t := range texts {
		o, err := geojson.Parse(t, nil)
		if err != nil {
			panic(err)
		}
		c06Probes = append(c06Probes, o)
	}
	c06Probes = append(c06Probes, geojson.NewRect(geometry.Rect{Min: geometry.Point{X: -2, Y: -2}, Max: geometry.Point{X: 3, Y: 5}}),
		geojson.NewSimplePoint(geometry.Point{X: 4, Y: 0}))
	return c06Probes
}

// answers evaluates the three predicates against every probe in both
// operand orders (contains / within / intersects, both directions: 6 bits
// per probe).
func answers(o geojson.Object) []byte {
	ps := probes()
	out := make([]byte, len(ps))
	for i, p := range ps {
		var b byte
		set := func(bit uint, v bool) {
			if v {
				b |= 1 << bit
			}
		}
		set(0, o.Contains(p))
		set(1, o.Within(p))
		set(2, o.Intersects(p))
		set(3, p.Contains(o))
		set(4, p.Within(o))
		set(5, p.Intersects(o))
		out[i] = b
	}
	return out
}

func optString(o *geojson.ParseOptions) string {
	if o == nil {
		return "nil"
	}
	return fmt.Sprintf("%+v", *o)
}

func c06One(c *mon.Ctx, text string, os optSet) {
	res := refjson.Classify(text)
	c.SetCase(func() interface{} { return c06Case{Text: text, Options: os.Name} })
	c.Try(func() {
		o1, err := geojson.Parse(text, os.O)
		if err != nil {
			c.Count("rejected_inputs")
			return
		}
		if res.Class == refjson.Defect || !res.Finite && hasInf(res) {
			c.Count("outside_domain")
			return
		}
		c.Eval()
		c.Count("accepted")
		mk := func(j1, j2, detail string) c06Case {
			return c06Case{Text: text, Options: os.Name, JSON1: truncate(j1, 1200), JSON2: truncate(j2, 1200), Detail: detail}
		}
		var j1 string
		if len(text)%2 == 0 {
			// the first serialisation of a freshly parsed object goes into a caller-owned buffer which the caller then
			// recycles: what the object says about itself afterwards must not have changed (added after seeded change
			// C06-p, a cache of the encoded text that kept a sub-slice of the caller's buffer)
			buf := o1.AppendJSON(make([]byte, 0, 256))
			j1 = string(buf)
			buf = buf[:cap(buf)]
			for i := range buf {
				buf[i] = '#'
			}
			c.Count("first_serialisation_into_recycled_buffer")
			if again := o1.JSON(); again != j1 {
				c.Violation("not-fixpoint", "JSON() differs from the object's first serialisation after the caller recycled the buffer it was written to", mk(j1, again, "first serialisation through AppendJSON(buf), buf overwritten, then JSON()"))
				return
			}
		} else {
			j1 = o1.JSON()
		}
		if !json.Valid([]byte(j1)) {
			c.Violation("invalid-json", "JSON() of an accepted object is not valid JSON", mk(j1, "", ""))
			return
		}
		o2, err := geojson.Parse(j1, os.O)
		if err != nil {
			c.Violation("reparse-rejected", "Parse rejects the object's own JSON output: "+err.Error(), mk(j1, "", ""))
			return
		}
		if reflect.TypeOf(o1) != reflect.TypeOf(o2) {
			c.Violation("kind-changed", "reparsed object has a different Go kind", mk(j1, "", fmt.Sprintf("%T vs %T", o1, o2)))
		}
		j2 := o2.JSON()
		if j1 != j2 {
			c.Violation("not-fixpoint", "JSON output changes on a second Parse/JSON round", mk(j1, j2, ""))
		}
		a1, a2 := answers(o1), answers(o2)
		if string(a1) != string(a2) {
			c.Violation("answers-changed", "predicate answers differ between the parsed object and its reparsed JSON", mk(j1, j2, fmt.Sprintf("%v vs %v", a1, a2)))
		}
		for _, b := range a1 {
			if b != 0 {
				c.Count("probe_hits")
				break
			}
		}
		// information content against the reference reading of the input
		out := refjson.Classify(j1)
		if out.Doc == nil {
			c.Violation("output-not-geojson", "JSON output is not decodable as GeoJSON by the reference reader: "+out.Reason, mk(j1, "", ""))
			return
		}
		if res.Doc == nil {
			return
		}
		circles := os.O == nil || !os.O.DisableCircleType
		if e := docEq(res.Doc, out.Doc, circles, true); e != nil {
			if e.circle {
				if _, isCircle := o1.(*geojson.Circle); isCircle || containsCircle(o1) {
					c.KnownOrViolation("F10", "lossy", "a Circle feature drops what lies outside the circle convention: "+e.msg, mk(j1, "", e.msg))
					return
				}
			}
			c.Violation("lossy", "JSON output does not carry the input's information: "+e.msg, mk(j1, "", e.msg))
		}
		if len(res.Doc.Children) > 0 || len(res.Doc.Foreign) > 0 {
			c.NonTrivial(uint64(mon.NewH().S(text).S(os.Name)))
		}
	})
}

func hasInf(res refjson.Result) bool {
	// Finite is false for nulls too; an overflowing number is the only case
	// the property excludes ("numbers finite")
	if res.Doc == nil {
		return false
	}
	inf := false
	var rec func(d *refjson.Doc)
	chk := func(p refjson.Pos) {
		vals := append([]float64{p.X, p.Y}, p.Extra...)
		for _, v := range vals {
			if v > 1.7976931348623157e308 || v < -1.7976931348623157e308 {
				inf = true
			}
		}
	}
	rec = func(d *refjson.Doc) {
		for _, p := range d.Points {
			chk(p)
		}
		for _, r := range d.Rings {
			for _, p := range r {
				chk(p)
			}
		}
		for _, ch := range d.Children {
			rec(ch)
		}
	}
	rec(res.Doc)
	return inf
}

func containsCircle(o geojson.Object) bool {
	found := false
	var rec func(o geojson.Object)
	rec = func(o geojson.Object) {
		switch v := o.(type) {
		case *geojson.Circle:
			found = true
		case *geojson.Feature:
			rec(v.Base())
		case geojson.Collection:
			for _, ch := range v.Children() {
				rec(ch)
			}
		}
	}
	rec(o)
	return found
}

func c06Run(c *mon.Ctx) {
	n := c.Pick(250000, 6000000)
	sets := c06OptSets()
	for i := 0; i < n; i++ {
		if !c.Mine(i) {
			continue
		}
		r := c.SubRng("doc", i)
		o := gen.DefaultDocOpts()
		o.MaxDepth = 1 + r.Intn(5)
		o.MaxKids = 1 + r.Intn(4)
		o.LongFirst = i%4 == 0
		o.BigOften = i%7 == 0
		tree := gen.GenDoc(r, o, 0)
		text := gen.Render(r, tree, i%2 == 0, i%3 == 0)
		c06One(c, text, sets[0])
		c06One(c, text, sets[1+i%(len(sets)-1)])
		if i < 48 && i%16 == c.Shard && c.WantSample() {
			if o1, err := geojson.Parse(text, nil); err == nil {
				c.Sample(map[string]interface{}{"text": truncate(text, 300), "json": truncate(o1.JSON(), 300)})
			}
		}
	}
}

func c06Replay(kind string, raw json.RawMessage) (bool, string) {
	var cs c06Case
	if err := json.Unmarshal(raw, &cs); err != nil {
		return false, err.Error()
	}
	p := mon.Lookup("C06")
	n, known, first := mon.ReplayRun(p, func(c *mon.Ctx) {
		for _, os := range c06OptSets() {
			if cs.Options == "" || os.Name == cs.Options {
				c06One(c, cs.Text, os)
			}
		}
	})
	return n > 0, fmt.Sprintf("violations=%d known=%v %s", n, known, first)
}

func init() {
	mon.Register(&mon.Prop{
		ID:          "C06",
		Rule:        "grammar-generated documents (all 9 types + Circle convention, nesting <= 5, 2-4-D and mixed-dimension positions, null ordinates in points, duplicate and escaped reserved members, foreign members of any JSON shape in any order, random whitespace, odd number spellings, geometries and collections straddling the index thresholds) under the default options and one of {simple points, rects, both, indexes off, index@1 R-tree, circle type disabled}; each accepted text is serialised, reparsed, reserialised, compared bytewise, probed with 14 objects in both operand orders, and compared with the reference reading of the input (type, every x,y bit for bit, z/m of the declared dimensionality, child order, ordered foreign members, properties on every Feature). Non-trivial = distinct accepted (text, options) with nested objects or foreign members.",
		Assumptions: []string{"reference reader internal/refjson; foreign members are compared after decoding (key unescaped, value canonical with the source spelling of numbers)", "an ordinate that a position does not have in the input (position shorter than the declared dimensionality) must be padded with 0 in the output - any other value would be invented information", "known finding F10: objects parsed as Circle keep only the circle convention"},
		Run:         c06Run,
		Replay:      c06Replay,
		MustSee:     []string{"accepted", "probe_hits"},
	})
}
