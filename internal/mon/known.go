package mon

import (
	"bufio"
	"encoding/json"
	"os"
	"path/filepath"
	"runtime"
	"strconv"
	"strings"
)

// KnownEntry is one line of known_findings.json.
type KnownEntry struct {
	Status   string          `json:"status"` // "known" or "fixed"
	Property string          `json:"property"`
	Also     []string        `json:"also_properties,omitempty"` // other properties whose checks meet the same defect
	ID       string          `json:"id"`
	What     string          `json:"what"`
	Commit   string          `json:"commit,omitempty"`
	Key      json.RawMessage `json:"key,omitempty"`
	Corpus   string          `json:"corpus,omitempty"`
	Witness  json.RawMessage `json:"witness,omitempty"`
}

// Root returns the /verif directory (VERIF_ROOT or the working directory).
func Root() string {
	if v := os.Getenv("VERIF_ROOT"); v != "" {
		return v
	}
	wd, _ := os.Getwd()
	return wd
}

// LoadKnown reads known_findings.json; the map is keyed by property+"/"+id
// and also by id alone for entries whose id is unique.
func LoadKnown() map[string]KnownEntry {
	out := map[string]KnownEntry{}
	b, err := os.ReadFile(filepath.Join(Root(), "known_findings.json"))
	if err != nil {
		return out
	}
	var doc struct {
		Findings []KnownEntry `json:"findings"`
	}
	if err := json.Unmarshal(b, &doc); err != nil {
		panic("known_findings.json: " + err.Error())
	}
	for _, e := range doc.Findings {
		out[e.ID] = e
	}
	return out
}

// LoadHashes reads a committed snapshot of 64-bit hashes (one hex value per
// line, '#' comments) relative to the verif root.
func LoadHashes(rel string) map[uint64]struct{} {
	out := map[uint64]struct{}{}
	f, err := os.Open(filepath.Join(Root(), rel))
	if err != nil {
		return out
	}
	defer f.Close()
	sc := bufio.NewScanner(f)
	for sc.Scan() {
		s := strings.TrimSpace(sc.Text())
		if s == "" || s[0] == '#' {
			continue
		}
		v, err := strconv.ParseUint(s, 16, 64)
		if err == nil {
			out[v] = struct{}{}
		}
	}
	return out
}

// Covers reports whether the entry applies to property id.
func (e KnownEntry) Covers(id string) bool {
	if e.Property == id {
		return true
	}
	for _, a := range e.Also {
		if a == id {
			return true
		}
	}
	return false
}

func runtimeStack(buf []byte) int { return runtime.Stack(buf, true) }
