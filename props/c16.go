package props

import (
	"bytes"
	"fmt"
	"math"
	"math/rand"
	"runtime"
	"strings"
	"sync"
	"sync/atomic"

	"github.com/tidwall/geojson"
	"github.com/tidwall/geojson/geometry"

	"verif/internal/exact"
	"verif/internal/gen"
	"verif/internal/mon"
)

// C16: objects are immutable: concurrent queries are race-free and deterministic.

type c16Case struct {
	Round    int    `json:"round"`
	Phase    string `json:"phase"`
	Op       string `json:"op"`
	Receiver string `json:"receiver"`
	Argument string `json:"argument"`
	Alone    string `json:"result_alone"`
	Got      string `json:"result_concurrent"`
}

// poolRecipe is a deterministic list of object builders; every call of build
// returns a fresh, structurally identical object graph.
type poolRecipe struct {
	names []string
	build []func() geojson.Object
}

func c16Recipe(seed int64) *poolRecipe {
	r := rand.New(rand.NewSource(seed))
	p := &poolRecipe{}
	add := func(name string, f func() geojson.Object) {
		p.names = append(p.names, name)
		p.build = append(p.build, f)
	}
	anchor := gen.RandShape(r, exact.KPoly, 1)
	idx := []*geometry.IndexOptions{nil, {Kind: geometry.None}, {Kind: geometry.RTree, MinPoints: 1}, {Kind: geometry.QuadTree, MinPoints: 1}}
	k := 0
	for _, kind := range kinds12 {
		for v := 0; v < 4; v++ {
			n := c09Node(r, kind, anchor, 0)
			ic := idx[k%len(idx)]
			k++
			name := fmt.Sprintf("%s#%d", kind, v)
			if v == 3 && n.Parseable() {
				txt := n.JSON()
				po := &geojson.ParseOptions{IndexChildren: 1, IndexGeometry: 1, IndexGeometryKind: geometry.IndexKind(1 + k%2), AllowSimplePoints: k%2 == 0, AllowRects: k%3 == 0}
				add(name+"(parsed)", func() geojson.Object {
					o, err := geojson.Parse(txt, po)
					if err != nil {
						panic(err)
					}
					return o
				})
				continue
			}
			nn := n
			add(name, func() geojson.Object { return nn.Build(ic) })
		}
	}
	// larger shapes, a moved shape, collections above the child-index threshold
	big := func(n int, seed int64) []geometry.Point {
		rr := rand.New(rand.NewSource(seed))
		ring := gen.RandStar(rr, n, 40, 0, 0)
		return gpts(closeRing(ring))
	}
	b200, b70 := big(200, 5), big(70, 6)
	add("Polygon-200(default index)", func() geojson.Object { return geojson.NewPolygon(geometry.NewPoly(b200, nil, nil)) })
	add("Polygon-70(rtree)", func() geojson.Object {
		return geojson.NewPolygon(geometry.NewPoly(b70, nil, &geometry.IndexOptions{Kind: geometry.RTree, MinPoints: 1}))
	})
	add("LineString-200", func() geojson.Object { return geojson.NewLineString(geometry.NewLine(b200, nil)) })
	b1200 := big(320, 7)
	add("Polygon-320(rtree, multi-level)", func() geojson.Object {
		return geojson.NewPolygon(geometry.NewPoly(b1200, nil, &geometry.IndexOptions{Kind: geometry.RTree, MinPoints: 64}))
	})
	add("LineString-260(rtree)", func() geojson.Object {
		return geojson.NewLineString(geometry.NewLine(b1200[:260], &geometry.IndexOptions{Kind: geometry.RTree, MinPoints: 1}))
	})
	add("Polygon-moved", func() geojson.Object { return geojson.NewPolygon(geometry.NewPoly(b70, nil, nil).Move(3, -2)) })
	// a polygon with 12 holes
	{
		ext := []geometry.Point{{X: -20, Y: -20}, {X: 20, Y: -20}, {X: 20, Y: 20}, {X: -20, Y: 20}, {X: -20, Y: -20}}
		var holes [][]geometry.Point
		for h := 0; h < 12; h++ {
			x, y := float64(-18+6*(h%6)), float64(-12+16*(h/6))
			holes = append(holes, []geometry.Point{{X: x, Y: y}, {X: x + 3, Y: y}, {X: x + 3, Y: y + 4}, {X: x, Y: y + 4}, {X: x, Y: y}})
		}
		add("Polygon-12-holes", func() geojson.Object { return geojson.NewPolygon(geometry.NewPoly(ext, holes, nil)) })
		add("Rect-over-hole-5", func() geojson.Object {
			return geojson.NewRect(geometry.Rect{Min: geometry.Point{X: 11, Y: -13}, Max: geometry.Point{X: 16, Y: -7}})
		})
		add("Polygon-in-material", func() geojson.Object {
			return geojson.NewPolygon(geometry.NewPoly([]geometry.Point{{X: -19.5, Y: -19}, {X: 19, Y: -19}, {X: 19, Y: -14}, {X: -19.5, Y: -14}, {X: -19.5, Y: -19}}, nil, nil))
		})
	}
	var many []geometry.Point
	for i := 0; i < 100; i++ {
		many = append(many, geometry.Point{X: float64(i%10) - 5, Y: float64(i/10) - 5})
	}
	add("MultiPoint-100(child index)", func() geojson.Object { return geojson.NewMultiPoint(many) })
	add("Circle-big", func() geojson.Object { return geojson.NewCircle(geometry.Point{X: 1, Y: 1}, 300000, 64) })
	add("Circle-zero", func() geojson.Object { return geojson.NewCircle(geometry.Point{X: 1, Y: 1}, 0, 64) })
	add("Feature(Circle)", func() geojson.Object {
		return geojson.NewFeature(geojson.NewCircle(geometry.Point{X: -2, Y: 2}, 150000, 32), `{"id":1}`)
	})
	// positions with Z and M ordinates, foreign members (the serialisers walk per-object side tables)
	parsed := func(name, txt string, po *geojson.ParseOptions) {
		add(name, func() geojson.Object {
			o, err := geojson.Parse(txt, po)
			if err != nil {
				panic(name + ": " + err.Error())
			}
			return o
		})
	}
	var lz, pz strings.Builder
	for i := 0; i < 40; i++ {
		if i > 0 {
			lz.WriteByte(',')
		}
		fmt.Fprintf(&lz, "[%d,%d,%d,%d]", i%9-4, i/9-2, 100+i, 1000+i)
	}
	pz.WriteString("[[-6,-6,1],[6,-6,2],[6,6,3],[-6,6,4],[-6,-6,5]],[[-2,-2,11],[2,-2,12],[2,2,13],[-2,2,14],[-2,-2,15]],[[3,3,21],[4,3,22],[4,4,23],[3,3,24]]")
	parsed("LineString-ZM-40", `{"type":"LineString","coordinates":[`+lz.String()+`],"bbox":[-4,-2,4,2]}`, nil)
	parsed("Polygon-Z-holes", `{"type":"Polygon","coordinates":[`+pz.String()+`]}`, nil)
	parsed("MultiLineString-Z", `{"type":"MultiLineString","coordinates":[[[0,0,1],[1,1,2]],[[2,2,7],[3,3,8],[4,3,9]],[[-1,0],[-2,1]]]}`, nil)
	parsed("MultiPolygon-Z", `{"type":"MultiPolygon","coordinates":[[`+pz.String()+`],[[[10,10,1],[12,10,2],[12,12,3],[10,10,4]]]]}`, nil)
	parsed("Feature(LineString-ZM)", `{"type":"Feature","id":"z","geometry":{"type":"LineString","coordinates":[`+lz.String()+`]},"properties":{"a":[1,2,{"b":null}]}}`, &geojson.ParseOptions{IndexGeometry: 1, IndexGeometryKind: geometry.RTree})
	parsed("MultiPoint-Z", `{"type":"MultiPoint","coordinates":[[1,1,5],[2,2,6,7],[3,3]]}`, nil)
	// nested collections: one query keeps several child searches open at a time
	deep := `{"type":"Point","coordinates":[1,1]}`
	for d := 0; d < 8; d++ {
		deep = `{"type":"GeometryCollection","geometries":[{"type":"LineString","coordinates":[[` + fmt.Sprint(-3-d) + `,0],[` + fmt.Sprint(3+d) + `,1]]},` + deep + `,{"type":"MultiPoint","coordinates":[[0,0],[` + fmt.Sprint(d) + `,2]]}]}`
	}
	parsed("GeometryCollection-nested-8", deep, nil)
	parsed("GeometryCollection-nested-8(child index)", deep, &geojson.ParseOptions{IndexChildren: 1})
	var feats strings.Builder
	for i := 0; i < 70; i++ {
		if i > 0 {
			feats.WriteByte(',')
		}
		if i%10 == 3 {
			feats.WriteString(`{"type":"Feature","geometry":` + deep + `,"properties":{}}`)
		} else {
			fmt.Fprintf(&feats, `{"type":"Feature","geometry":{"type":"Point","coordinates":[%d,%d,%d]},"bbox":[%d,%d,%d,%d,%d,%d],"properties":{"i":%d}}`, i%10-5, i/10-3, i, i%10-5, i/10-3, i, i%10-5, i/10-3, i, i)
		}
	}
	parsed("FeatureCollection-70(nested members)", `{"type":"FeatureCollection","features":[`+feats.String()+`]}`, nil)
	return p
}

func (p *poolRecipe) instantiate() []geojson.Object {
	out := make([]geojson.Object, len(p.build))
	for i, f := range p.build {
		out[i] = f()
	}
	return out
}

// structural snapshot through the public API
func structDigest(o geojson.Object) string {
	var b bytes.Buffer
	var rec func(o geojson.Object)
	rec = func(o geojson.Object) {
		fmt.Fprintf(&b, "%T|%s|%d|", o, rs(o.Rect()), o.NumPoints())
		ser := func(s geometry.Series) {
			if s == nil {
				return
			}
			fmt.Fprintf(&b, "%v%v%d|", s.Convex(), s.Clockwise(), s.NumSegments())
			if ib, ok := s.Index().([]byte); ok {
				b.Write(ib)
			}
		}
		switch v := o.(type) {
		case *geojson.LineString:
			ser(v.Base())
		case *geojson.Polygon:
			ser(v.Base().Exterior)
			for _, h := range v.Base().Holes {
				ser(h)
			}
		case *geojson.Feature:
			rec(v.Base())
		case geojson.Collection:
			for _, ch := range v.Children() {
				fmt.Fprintf(&b, "%p;", ch)
				rec(ch)
			}
		}
	}
	rec(o)
	return b.String()
}

type spinBarrier struct {
	n     int32
	count atomic.Int32
	gen   atomic.Int32
	abort atomic.Bool // a goroutine panicked: nobody waits any more
}

func (s *spinBarrier) wait() {
	if s.abort.Load() {
		return
	}
	g := s.gen.Load()
	if s.count.Add(1) == s.n {
		s.count.Store(0)
		s.gen.Add(1)
		return
	}
	for s.gen.Load() == g && !s.abort.Load() {
		runtime.Gosched()
	}
}

type c16Rec struct {
	phase    string
	oi, i, j int
	got      string
}

// c16Baseline runs every operation on every (receiver, argument) pair alone.
func c16Baseline(S []geojson.Object) [][][]string {
	n := len(S)
	alone := make([][][]string, len(objOps))
	for oi, op := range objOps {
		alone[oi] = make([][]string, n)
		for i := 0; i < n; i++ {
			alone[oi][i] = make([]string, n)
			for j := 0; j < n; j++ {
				alone[oi][i][j] = op.F(S[i], S[j])
			}
		}
	}
	return alone
}

// c16Round releases G goroutines on the fresh pool F.  The monitor keeps
// per-goroutine logs that are merged after the join: it must not synchronise
// the goroutines it watches (an atomic counter or a mutex in the hot path
// would order their accesses and hide races from the detector).
func c16Round(F, S []geojson.Object, alone [][][]string, G int, seed int64, round int) ([][]c16Rec, []int64) {
	n := len(F)
	logs := make([][]c16Rec, G)
	counts := make([]int64, G)
	bar := &spinBarrier{n: int32(G)}
	var wg sync.WaitGroup
	for g := 0; g < G; g++ {
		wg.Add(1)
		go func(g int) {
			defer wg.Done()
			defer func() {
				if r := recover(); r != nil {
					logs[g] = append(logs[g], c16Rec{phase: "panic: " + fmt.Sprint(r), oi: -1})
					bar.abort.Store(true) // release the others
				}
			}()
			rr := rand.New(rand.NewSource(seed*1000 + int64(round)*100 + int64(g)))
			check := func(phase string, oi, i, j int, got string) {
				counts[g]++
				if got != alone[oi][i][j] {
					logs[g] = append(logs[g], c16Rec{phase, oi, i, j, got})
				}
			}
			// part A: convoy - everybody hits object i at the same moment
			for i := 0; i < n; i++ {
				bar.wait()
				j := (i + g) % n
				for k := 0; k < 6; k++ {
					oi := (g + k*5 + i) % len(objOps)
					// the partner comes from the already used pool S, so that
					// an object of the fresh pool is touched for the first time
					// only here, by everybody at once
					if g%2 == 0 {
						check("convoy", oi, i, j, objOps[oi].F(F[i], S[j]))
					} else {
						check("convoy(as argument)", oi, j, i, objOps[oi].F(S[j], F[i]))
					}
				}
			}
			bar.wait()
			// part B: scatter - few receivers, mixed operations
			hot := []int{rr.Intn(n), rr.Intn(n), (g * 3) % n, round % n}
			for k := 0; k < 300; k++ {
				i := hot[rr.Intn(len(hot))]
				j := rr.Intn(n)
				oi := rr.Intn(len(objOps))
				if rr.Intn(3) == 0 {
					i, j = j, i
				}
				check("scatter", oi, i, j, objOps[oi].F(F[i], F[j]))
			}
		}(g)
	}
	wg.Wait()
	return logs, counts
}

func c16Run(c *mon.Ctx) {
	recipe := c16Recipe(c.Seed*7919 + 11)
	n := len(recipe.build)
	S := recipe.instantiate()
	var alone [][][]string
	c.SetCase(func() interface{} { return c16Case{Phase: "sequential baseline"} })
	if !c.Try(func() { alone = c16Baseline(S) }) {
		return
	}
	c.Count("baseline_results")
	rounds := c.Pick(64, 1200) / c.NShards
	if rounds < 1 {
		rounds = 1
	}
	var opsDone int64
	for round := 0; round < rounds; round++ {
		procs := []int{2, 16}[(round+c.Shard)%2]
		runtime.GOMAXPROCS(procs)
		F := recipe.instantiate() // never touched before this round
		before := make([]string, n)
		if round%2 == 0 {
			// on odd rounds even this read-only snapshot is skipped, so that
			// the very first access to every object is concurrent
			for i := range F {
				before[i] = structDigest(F[i])
			}
		}
		// every fourth round with three times as many goroutines (state shared between objects or calls
		// shows when many calls are in flight at once)
		G := 32
		if round%4 == 3 {
			G = 96
		}
		c.Count(fmt.Sprintf("rounds_with_%d_goroutines", G))
		logs, counts := c16Round(F, S, alone, G, c.Seed, round)
		for g := 0; g < G; g++ {
			opsDone += counts[g]
			for _, m := range logs[g] {
				if m.oi < 0 {
					c.Violation("panic-concurrent", m.phase, c16Case{Round: round, Phase: "goroutine"})
					continue
				}
				c.Violation("nondeterministic "+objOps[m.oi].Name, "a concurrent call returned a different value than the same call run alone",
					c16Case{Round: round, Phase: m.phase, Op: objOps[m.oi].Name, Receiver: recipe.names[m.i], Argument: recipe.names[m.j], Alone: truncate(alone[m.oi][m.i][m.j], 300), Got: truncate(m.got, 300)})
			}
		}
		for i := range F {
			if round%2 == 0 && structDigest(F[i]) != before[i] {
				c.Violation("structure-changed", "an object's public structure changed during concurrent queries", c16Case{Round: round, Phase: "snapshot", Receiver: recipe.names[i]})
			}
		}
		c.Count("rounds")
		c.Count(fmt.Sprintf("rounds_gomaxprocs_%d", procs))
		c.CountN("receivers_hit_concurrently", int64(n))
	}
	// part C: concurrent construction - goroutines parse their own documents at
	// the same time; every result must serialise exactly as when parsed alone
	{
		var texts, alone []string
		r := c.SubRng("parse", 0)
		for len(texts) < 48 {
			do := gen.DefaultDocOpts()
			do.MaxDepth, do.LongFirst = 1+r.Intn(3), false
			t := gen.Render(r, gen.GenDoc(r, do, 0), false, false)
			if o, err := geojson.Parse(t, nil); err == nil {
				texts = append(texts, t)
				alone = append(alone, o.JSON())
			}
		}
		const G = 32
		bad := make([][]string, G)
		var wg sync.WaitGroup
		for g := 0; g < G; g++ {
			wg.Add(1)
			go func(g int) {
				defer wg.Done()
				for k := 0; k < 400; k++ {
					i := (g*7 + k) % len(texts)
					o, err := geojson.Parse(texts[i], nil)
					if err != nil || o.JSON() != alone[i] {
						bad[g] = append(bad[g], texts[i])
					}
				}
			}(g)
		}
		wg.Wait()
		for g := range bad {
			for _, t := range bad[g] {
				c.Violation("nondeterministic Parse", "a document parsed while other goroutines were parsing decodes differently from the same document parsed alone", map[string]interface{}{"text": truncate(t, 600)})
			}
		}
		c.CountN("concurrent_parses", int64(G*400))
		opsDone += int64(G * 400)
	}
	// part D: child searches held open - every goroutine stays inside the iterator of a Search on a collection
	// until all the others are inside theirs too (bounded), so that as many searches as goroutines are in flight at
	// once; each must still visit what it visits when run alone
	{
		everything := geometry.Rect{Min: geometry.Point{X: math.Inf(-1), Y: math.Inf(-1)}, Max: geometry.Point{X: math.Inf(1), Y: math.Inf(1)}}
		visit := func(o geojson.Object, each func()) int {
			n := 0
			o.(geojson.Collection).Search(everything, func(geojson.Object) bool {
				n++
				if n == 1 {
					each()
				}
				return true
			})
			return n
		}
		var cols []int
		for i, o := range S {
			if col, ok := o.(geojson.Collection); ok && !o.Empty() && len(col.Children()) > 0 {
				cols = append(cols, i)
			}
		}
		for rep := 0; rep < 3 && len(cols) > 0; rep++ {
			const G = 96
			runtime.GOMAXPROCS([]int{16, 2, 16}[rep])
			F := recipe.instantiate()
			var inside atomic.Int32
			got := make([]int, G)
			var wg sync.WaitGroup
			for g := 0; g < G; g++ {
				wg.Add(1)
				go func(g int) {
					defer wg.Done()
					defer func() { recover() }()
					got[g] = visit(F[cols[(g+rep)%len(cols)]], func() {
						inside.Add(1)
						for spins := 0; inside.Load() < G && spins < 300000; spins++ {
							runtime.Gosched()
						}
					})
				}(g)
			}
			wg.Wait()
			for g := 0; g < G; g++ {
				i := cols[(g+rep)%len(cols)]
				want := visit(S[i], func() {})
				c.Count("held_open_searches")
				if got[g] != want {
					c.Violation("nondeterministic Search(held open)", "a child search visited a different number of children while other searches were in flight than when run alone",
						c16Case{Round: rep, Phase: "held-open searches", Op: "Collection.Search", Receiver: recipe.names[i], Alone: fmt.Sprint(want, " children"), Got: fmt.Sprint(got[g], " children")})
				}
			}
			opsDone += G
		}
	}
	c.CountN("concurrent_ops", opsDone)
	c.CountN("goroutines_per_round", 32)
	c.EvalN(int(opsDone))
	for oi := range objOps {
		for i := 0; i < n; i++ {
			c.NonTrivial(uint64(mon.NewH().S(objOps[oi].Name + "/" + kindOfName(recipe.names[i]))))
		}
	}
	c.Sample(map[string]interface{}{"pool": recipe.names, "operations": len(objOps), "goroutines": "32 (96 every fourth round)", "rounds": rounds})
}

func kindOfName(s string) string {
	for i := 0; i < len(s); i++ {
		if s[i] == '#' || s[i] == '-' || s[i] == '(' {
			return s[:i]
		}
	}
	return s
}

func init() {
	mon.Register(&mon.Prop{
		ID:          "C16",
		Rule:        "a seeded pool recipe of ~70 objects of all 12 kinds (indexed and unindexed geometry, indexed children, parsed under option sets, 200-vertex shapes, a moved shape, circles, positions with Z/M ordinates, collections nested eight deep) is instantiated once for a sequential baseline (every one of 22 operation groups on every (receiver, argument) pair) and once per round, never touched before the round; per round 32 goroutines (96 every fourth round) released by a spin barrier first hit every object at the same moment (convoy, as receiver and as argument, so the first use of each object is contended) and then run seeded mixed operations on a few hot receivers (scatter); GOMAXPROCS alternates between 2 and 16; every concurrent result must equal the result of the same call run alone; the Go race detector watches the whole run. Non-trivial = distinct (operation group, receiver kind).",
		Assumptions: []string{"the race detector only sees accesses the workload performs; every exported method of every kind is executed", "the sequential specification is a pure function of the operation, so linearizability degenerates to per-operation equality with the result obtained alone"},
		Run:         c16Run,
		MustSee:     []string{"held_open_searches", "concurrent_parses", "rounds", "concurrent_ops", "baseline_results", "rounds_gomaxprocs_2", "rounds_gomaxprocs_16"},
		Race:        true,
		Procs:       4,
		HangSecs:    300,
	})
}
