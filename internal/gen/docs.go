package gen

import (
	"encoding/json"
	"fmt"
	"math/rand"
	"strconv"
	"strings"

	"verif/internal/refjson"
)

// V is an ordered JSON tree (shared with the reference reader).
type V = refjson.Val

// DocOpts steers the GeoJSON grammar generator.
type DocOpts struct {
	MaxDepth   int
	Foreign    bool // foreign members (bbox, id, properties, others)
	Dups       bool // duplicate reserved members (the last one counts)
	EscKeys    bool // \u-escaped member names
	Nulls      bool // null ordinates in Point / MultiPoint
	LongPos    bool // positions with more than four elements
	MixedDims  bool // positions of differing dimensionality inside one geometry
	LongFirst  bool // allow a later position to have more ordinates than the first
	Circles    bool // Circle feature convention
	OddNums    bool // unusual number spellings
	MaxKids    int
	MaxPts     int
	Span       int  // coordinate span for lattice-ish numbers
	Rects      bool // polygons in the exact rectangle form now and then
	OutOfRange bool // occasionally out-of-range coordinates (RequireValid)
	BigOften   bool // more often geometries with >= 64 positions / collections with >= 64 children
	Overflow   bool // occasionally a number literal that overflows float64 (1e999) as an extra ordinate
}

// DefaultDocOpts is a rich default.
func DefaultDocOpts() *DocOpts {
	return &DocOpts{MaxDepth: 4, Foreign: true, Dups: true, EscKeys: true, Nulls: true, LongPos: true, MixedDims: true, LongFirst: true, Circles: true, OddNums: true, MaxKids: 4, MaxPts: 6, Span: 8, Rects: true}
}

func num(s string) *V { return &V{Kind: 'n', Num: s} }
func str(s string) *V { return &V{Kind: 's', Str: s} }
func arr(e ...*V) *V  { return &V{Kind: 'a', El: e} }
func obj(m ...refjson.KV) *V {
	return &V{Kind: 'o', Mem: m}
}
func kv(k string, v *V) refjson.KV { return refjson.KV{Key: k, Val: v} }

var oddNums = []string{"-0", "0", "1E2", "1e2", "1.50", "0.1", "-0.0", "1e-7", "12345678.123456789", "179.99999999999997", "1e21", "1E+2", "5e-324", "2.2250738585072014e-308",
	"0.30000000000000004", "100", "-90", "90.0", "1.7976931348623157e308", "0e0", "4.9406564584124654e-324", "123456789012345678", "0.000001"}

// NumText returns a JSON number spelling.
func NumText(r *rand.Rand, o *DocOpts, lat bool) string {
	span := o.Span
	if span <= 0 {
		span = 8
	}
	if o.OutOfRange && r.Intn(40) == 0 {
		if lat {
			return []string{"90.5", "-91", "200", "-1e3"}[r.Intn(4)]
		}
		return []string{"180.5", "-181", "400", "-1e3"}[r.Intn(4)]
	}
	switch r.Intn(10) {
	case 0:
		if o.OddNums {
			return oddNums[r.Intn(len(oddNums))]
		}
		fallthrough
	case 1, 2, 3:
		return strconv.Itoa(r.Intn(2*span+1) - span)
	case 4, 5:
		return strconv.FormatFloat(float64(r.Intn(4*span+1)-2*span)/2, 'f', -1, 64)
	case 6:
		return strconv.FormatFloat(float64(r.Intn(8*span+1)-4*span)/4, 'f', 2, 64)
	default:
		lim := 180.0
		if lat {
			lim = 90
		}
		if r.Intn(2) == 0 {
			lim = float64(span)
		}
		return strconv.FormatFloat((r.Float64()*2-1)*lim, 'g', -1, 64)
	}
}

// position builds one position of dimension dim (2..4; more when over is set).
func position(r *rand.Rand, o *DocOpts, dim int, allowNull bool) *V {
	p := arr()
	for i := 0; i < dim; i++ {
		if o.Overflow && i >= 2 && r.Intn(6) == 0 {
			p.El = append(p.El, num([]string{"1e999", "-1e999", "1E+400"}[r.Intn(3)]))
			continue
		}
		if allowNull && o.Nulls && r.Intn(25) == 0 {
			p.El = append(p.El, &V{Kind: 'z'})
			continue
		}
		p.El = append(p.El, num(NumText(r, o, i == 1)))
	}
	if o.LongPos && r.Intn(40) == 0 {
		// elements beyond the fourth (decoders look at four at most)
		for k := 1 + r.Intn(3); k > 0 || len(p.El) < 5; k-- {
			switch r.Intn(4) {
			case 0:
				p.El = append(p.El, &V{Kind: 'z'})
			default:
				p.El = append(p.El, num(NumText(r, o, false)))
			}
		}
	}
	return p
}

func pickDim(r *rand.Rand) int {
	switch r.Intn(6) {
	case 0:
		return 3
	case 1:
		return 4
	}
	return 2
}

// dims returns the dimensionality for the i-th position of a geometry whose
// first position has dimension d0.
func nextDim(r *rand.Rand, o *DocOpts, d0 int) int {
	if !o.MixedDims || r.Intn(8) != 0 {
		return d0
	}
	d := 2 + r.Intn(3)
	if d > d0 && !o.LongFirst {
		return d0
	}
	return d
}

func copyV(v *V) *V {
	c := *v
	c.El = append([]*V{}, v.El...)
	return &c
}

func lineCoords(r *rand.Rand, o *DocOpts, n int) *V {
	d0 := pickDim(r)
	a := arr()
	for i := 0; i < n; i++ {
		d := d0
		if i > 0 {
			d = nextDim(r, o, d0)
		}
		a.El = append(a.El, position(r, o, d, false))
	}
	return a
}

func ringCoords(r *rand.Rand, o *DocOpts, n int, d0 int) *V {
	a := arr()
	for i := 0; i < n; i++ {
		d := d0
		if i > 0 {
			d = nextDim(r, o, d0)
		}
		a.El = append(a.El, position(r, o, d, false))
	}
	// close it: same x,y spellings (or an equal value spelled differently)
	first := copyV(a.El[0])
	if r.Intn(6) == 0 && first.El[0].Kind == 'n' && !strings.ContainsAny(first.El[0].Num, "eE.") {
		first.El[0] = num(first.El[0].Num + ".0")
	}
	a.El = append(a.El, first)
	return a
}

func rectRing(r *rand.Rand, o *DocOpts) *V {
	x0, y0 := r.Intn(2*o.Span)-o.Span, r.Intn(o.Span)-o.Span/2
	w, h := 1+r.Intn(4), 1+r.Intn(4)
	if o.OutOfRange && r.Intn(6) == 0 {
		// a rectangle that leaves the valid range
		switch r.Intn(3) {
		case 0:
			x0, w = 178, 1+r.Intn(5)
		case 1:
			y0, h = 88, 1+r.Intn(5)
		default:
			x0, y0 = -183, -92
		}
	}
	c := [][2]float64{{float64(x0), float64(y0)}, {float64(x0 + w), float64(y0)}, {float64(x0 + w), float64(y0 + h)}, {float64(x0), float64(y0 + h)}, {float64(x0), float64(y0)}}
	switch r.Intn(8) {
	case 0: // near miss: clockwise
		c = [][2]float64{c[0], c[3], c[2], c[1], c[0]}
	case 1: // near miss: starts at another corner
		c = [][2]float64{c[1], c[2], c[3], c[0], c[1]}
	case 2, 3: // near miss: one ordinate of one corner is off (trapezoids, slanted edges)
		k := 1 + r.Intn(3)
		d := []float64{0.5, -0.5, 1, -1, 3}[r.Intn(5)]
		c[k][r.Intn(2)] += d
	case 4: // near miss: the first (and closing) corner is off
		d := []float64{0.5, -0.5, 1}[r.Intn(3)]
		k := r.Intn(2)
		c[0][k] += d
		c[4][k] += d
	}
	ring := arr()
	for _, p := range c {
		ring.El = append(ring.El, arr(num(strconv.FormatFloat(p[0], 'f', -1, 64)), num(strconv.FormatFloat(p[1], 'f', -1, 64))))
	}
	return ring
}

func polyCoords(r *rand.Rand, o *DocOpts) *V {
	if o.Rects && r.Intn(5) == 0 {
		return arr(rectRing(r, o))
	}
	d0 := pickDim(r)
	rings := 1
	if r.Intn(3) == 0 {
		rings = 2 + r.Intn(2)
	}
	a := arr()
	for i := 0; i < rings; i++ {
		n := 3 + r.Intn(max(1, o.MaxPts-2))
		if o.BigOften && r.Intn(12) == 0 {
			n = 60 + r.Intn(10)
			if r.Intn(8) == 0 {
				n = 255 + r.Intn(80) // beyond 256 segments
			}
		}
		d := d0
		if i > 0 && o.MixedDims && r.Intn(6) == 0 {
			d = 2 + r.Intn(3)
			if d > d0 && !o.LongFirst {
				d = d0
			}
		}
		a.El = append(a.El, ringCoords(r, o, n, d))
	}
	return a
}

var foreignKeys = []string{"id", "bbox", "properties", "foo", "crs", "a b", "é", "x\"y", "Type", "coordinate", "geom", "zz",
	"\x01tag", "unit\x1fsep", "del\x7f", "\v", "tab\there", "\U000e0001x", "back\\slash", "nul\x00"}

func randValue(r *rand.Rand, depth int) *V {
	switch r.Intn(9) {
	case 0:
		return &V{Kind: 'z'}
	case 1:
		return &V{Kind: 't'}
	case 2:
		return &V{Kind: 'f'}
	case 3:
		return num(oddNums[r.Intn(len(oddNums))])
	case 4:
		return str([]string{"", "a", "NaN", "é\n", "q\"uote", " ", "}{", "Circle", "\\"}[r.Intn(9)])
	case 5, 6:
		if depth > 2 {
			return arr()
		}
		a := arr()
		for i := r.Intn(4); i > 0; i-- {
			a.El = append(a.El, randValue(r, depth+1))
		}
		return a
	default:
		if depth > 2 {
			return obj()
		}
		m := obj()
		for i := r.Intn(4); i > 0; i-- {
			m.Mem = append(m.Mem, kv([]string{"a", "b", "type", "coordinates", "k k", "radius", "properties", "geometry", "id", "bbox"}[r.Intn(10)], randValue(r, depth+1)))
		}
		return m
	}
}

func addForeign(r *rand.Rand, o *DocOpts, m *V, feature bool) {
	if !o.Foreign {
		if feature && r.Intn(2) == 0 {
			m.Mem = append(m.Mem, kv("properties", obj()))
		}
		return
	}
	n := r.Intn(4)
	for i := 0; i < n; i++ {
		k := foreignKeys[r.Intn(len(foreignKeys))]
		var v *V
		switch k {
		case "bbox":
			v = arr(num("-10"), num("-10"), num("10"), num("10.5"))
		case "properties":
			if r.Intn(3) == 0 {
				v = &V{Kind: 'z'}
			} else {
				v = obj()
				for j := r.Intn(3); j > 0; j-- {
					v.Mem = append(v.Mem, kv([]string{"name", "n", "tags", "kind"}[r.Intn(4)], randValue(r, 1)))
				}
			}
		case "id":
			v = []*V{num("17"), str("abc"), num("1.50")}[r.Intn(3)]
		default:
			v = randValue(r, 0)
		}
		m.Mem = append(m.Mem, kv(k, v))
	}
}

// junk values used as earlier duplicates of reserved members
func junk(r *rand.Rand) *V {
	return []*V{num("7"), str("Point"), &V{Kind: 'z'}, arr(), obj(), arr(arr(num("1")))}[r.Intn(6)]
}

func finish(r *rand.Rand, o *DocOpts, m *V) *V {
	// duplicates of reserved members placed before the real ones
	if o.Dups && r.Intn(10) == 0 {
		var names []string
		for _, kvp := range m.Mem {
			switch kvp.Key {
			case "type", "coordinates", "geometry", "geometries", "features":
				names = append(names, kvp.Key)
			}
		}
		if len(names) > 0 {
			k := names[r.Intn(len(names))]
			jv := junk(r)
			if k == "type" && r.Intn(2) == 0 {
				// an earlier "type" that would also fit the other members (the last one counts)
				if tv := m.Get("type"); tv != nil && tv.Kind == 's' {
					if alt := map[string]string{"LineString": "MultiPoint", "MultiPoint": "LineString", "Polygon": "MultiLineString", "MultiLineString": "Polygon", "GeometryCollection": "FeatureCollection"}[tv.Str]; alt != "" {
						jv = str(alt)
					}
				}
			}
			m.Mem = append([]refjson.KV{kv(k, jv)}, m.Mem...)
			// shuffle everything except keep the junk before the last real one:
			// simply shuffle the members other than the real one, then append the real one last
			var real refjson.KV
			var rest []refjson.KV
			seen := false
			for i := len(m.Mem) - 1; i >= 0; i-- {
				if m.Mem[i].Key == k && !seen {
					real, seen = m.Mem[i], true
					continue
				}
				rest = append(rest, m.Mem[i])
			}
			r.Shuffle(len(rest), func(i, j int) { rest[i], rest[j] = rest[j], rest[i] })
			pos := 0
			for i, kvp := range rest {
				if kvp.Key == k {
					pos = i + 1
				}
			}
			ins := pos + r.Intn(len(rest)-pos+1)
			out := append([]refjson.KV{}, rest[:ins]...)
			out = append(out, real)
			out = append(out, rest[ins:]...)
			m.Mem = out
			return m
		}
	}
	r.Shuffle(len(m.Mem), func(i, j int) { m.Mem[i], m.Mem[j] = m.Mem[j], m.Mem[i] })
	return m
}

var geomTypes = []string{"Point", "LineString", "Polygon", "MultiPoint", "MultiLineString", "MultiPolygon", "GeometryCollection"}
var allTypes = append(append([]string{}, geomTypes...), "Feature", "FeatureCollection")

// GenDoc builds a well-formed GeoJSON document tree of a random type.
func GenDoc(r *rand.Rand, o *DocOpts, depth int) *V {
	t := allTypes[r.Intn(len(allTypes))]
	if depth >= o.MaxDepth {
		t = geomTypes[r.Intn(6)]
	}
	return GenDocType(r, o, depth, t)
}

// GenDocType builds a document of the given type.
func GenDocType(r *rand.Rand, o *DocOpts, depth int, t string) *V {
	m := obj(kv("type", str(t)))
	kids := func() int {
		n := r.Intn(max(1, o.MaxKids) + 1)
		if o.BigOften && depth == 0 && r.Intn(8) == 0 {
			n = 62 + r.Intn(6)
		}
		return n
	}
	switch t {
	case "Point":
		m.Mem = append(m.Mem, kv("coordinates", position(r, o, pickDim(r), true)))
	case "LineString":
		n := 2 + r.Intn(max(1, o.MaxPts-1))
		if o.BigOften && r.Intn(6) == 0 {
			n = 61 + r.Intn(8)
		}
		m.Mem = append(m.Mem, kv("coordinates", lineCoords(r, o, n)))
	case "Polygon":
		m.Mem = append(m.Mem, kv("coordinates", polyCoords(r, o)))
	case "MultiPoint":
		a := arr()
		for i := kids(); i > 0; i-- {
			a.El = append(a.El, position(r, o, pickDim(r), true))
		}
		m.Mem = append(m.Mem, kv("coordinates", a))
	case "MultiLineString":
		a := arr()
		for i := kids(); i > 0; i-- {
			a.El = append(a.El, lineCoords(r, o, 2+r.Intn(max(1, o.MaxPts-1))))
		}
		m.Mem = append(m.Mem, kv("coordinates", a))
	case "MultiPolygon":
		a := arr()
		for i := kids(); i > 0; i-- {
			a.El = append(a.El, polyCoords(r, o))
		}
		m.Mem = append(m.Mem, kv("coordinates", a))
	case "GeometryCollection", "FeatureCollection":
		a := arr()
		for i := kids(); i > 0; i-- {
			var c *V
			switch {
			case t == "FeatureCollection" && r.Intn(5) != 0:
				c = GenDocType(r, o, depth+1, "Feature")
			case t == "GeometryCollection" && r.Intn(5) != 0:
				if depth+1 >= o.MaxDepth {
					c = GenDocType(r, o, depth+1, geomTypes[r.Intn(6)])
				} else {
					c = GenDocType(r, o, depth+1, geomTypes[r.Intn(len(geomTypes))])
				}
			default:
				c = GenDoc(r, o, depth+1)
			}
			a.El = append(a.El, c)
		}
		key := "geometries"
		if t == "FeatureCollection" {
			key = "features"
		}
		m.Mem = append(m.Mem, kv(key, a))
	case "Feature":
		if o.Circles && r.Intn(6) == 0 {
			// Circle convention
			g := obj(kv("type", str("Point")), kv("coordinates", position(r, &DocOpts{Span: o.Span}, 2, false)))
			props := obj(kv("type", str("Circle")))
			if r.Intn(8) != 0 {
				props.Mem = append(props.Mem, kv("radius", num([]string{"1000", "1", "0", "250.5", "12345.678", "2.5", "1e3", "50000000", "45000", "40030174", "20015087", "-3", "-0.001", "1e-3", "7e7"}[r.Intn(15)])))
			}
			switch r.Intn(4) {
			case 0:
				props.Mem = append(props.Mem, kv("radius_units", str("km")))
			case 1:
				props.Mem = append(props.Mem, kv("radius_units", str("m")))
			case 2:
				props.Mem = append(props.Mem, kv("radius_units", str("")))
			}
			if o.Foreign && r.Intn(4) == 0 {
				props.Mem = append(props.Mem, kv("name", str("c")))
			}
			r.Shuffle(len(props.Mem), func(i, j int) { props.Mem[i], props.Mem[j] = props.Mem[j], props.Mem[i] })
			m.Mem = append(m.Mem, kv("geometry", g), kv("properties", props))
			if o.Foreign && r.Intn(4) == 0 {
				m.Mem = append(m.Mem, kv("id", num("9")))
			}
			r.Shuffle(len(m.Mem), func(i, j int) { m.Mem[i], m.Mem[j] = m.Mem[j], m.Mem[i] })
			return m
		}
		var g *V
		if depth+1 >= o.MaxDepth || r.Intn(8) != 0 {
			g = GenDocType(r, o, depth+1, geomTypes[r.Intn(6+btoi(depth+1 < o.MaxDepth))])
		} else {
			g = GenDoc(r, o, depth+1)
		}
		m.Mem = append(m.Mem, kv("geometry", g))
		addForeign(r, o, m, true)
		return finish(r, o, m)
	}
	addForeign(r, o, m, false)
	return finish(r, o, m)
}

func btoi(b bool) int {
	if b {
		return 1
	}
	return 0
}

// Render writes the tree as text; ws selects random insignificant whitespace,
// esc selects \u-escaping of some member names.
func Render(r *rand.Rand, v *V, ws, esc bool) string {
	var b strings.Builder
	render(r, v, ws, esc, &b)
	return b.String()
}

var wsChoices = []string{"", "", "", " ", "\n", "\t", "\r\n", "  "}

func sp(r *rand.Rand, ws bool, b *strings.Builder) {
	if ws {
		b.WriteString(wsChoices[r.Intn(len(wsChoices))])
	}
}

func escKey(r *rand.Rand, k string) string {
	q, _ := json.Marshal(k)
	s := string(q)
	if len(k) == 0 || r.Intn(6) != 0 {
		return s
	}
	// escape one ASCII letter as \u00XX
	idx := r.Intn(len(k))
	ch := k[idx]
	if ch < 'A' || ch > 'z' || (ch > 'Z' && ch < 'a') {
		return s
	}
	pre, _ := json.Marshal(k[:idx])
	post, _ := json.Marshal(k[idx+1:])
	return string(pre[:len(pre)-1]) + fmt.Sprintf("\\u%04x", ch) + string(post[1:])
}

func render(r *rand.Rand, v *V, ws, esc bool, b *strings.Builder) {
	switch v.Kind {
	case 'o':
		b.WriteByte('{')
		for i, m := range v.Mem {
			if i > 0 {
				b.WriteByte(',')
			}
			sp(r, ws, b)
			if esc {
				b.WriteString(escKey(r, m.Key))
			} else {
				q, _ := json.Marshal(m.Key)
				b.Write(q)
			}
			sp(r, ws, b)
			b.WriteByte(':')
			sp(r, ws, b)
			render(r, m.Val, ws, esc && m.Key != "properties", b)
		}
		sp(r, ws, b)
		b.WriteByte('}')
	case 'a':
		b.WriteByte('[')
		for i, e := range v.El {
			if i > 0 {
				b.WriteByte(',')
			}
			sp(r, ws, b)
			render(r, e, ws, esc, b)
		}
		sp(r, ws, b)
		b.WriteByte(']')
	case 'n':
		b.WriteString(v.Num)
	case 's':
		q, _ := json.Marshal(v.Str)
		b.Write(q)
	case 't':
		b.WriteString("true")
	case 'f':
		b.WriteString("false")
	default:
		b.WriteString("null")
	}
}

// ---- structural mutators (C07 defect classes) ----

// geoObjects lists the object nodes that carry a "type" member.
func geoObjects(v *V, out []*V) []*V {
	switch v.Kind {
	case 'o':
		if v.Get("type") != nil {
			out = append(out, v)
		}
		for _, m := range v.Mem {
			if m.Key == "geometry" || m.Key == "geometries" || m.Key == "features" {
				out = geoObjects(m.Val, out)
			}
		}
	case 'a':
		for _, e := range v.El {
			out = geoObjects(e, out)
		}
	}
	return out
}

// Clone deep-copies a tree.
func Clone(v *V) *V {
	c := &V{Kind: v.Kind, Num: v.Num, Str: v.Str}
	for _, m := range v.Mem {
		c.Mem = append(c.Mem, kv(m.Key, Clone(m.Val)))
	}
	for _, e := range v.El {
		c.El = append(c.El, Clone(e))
	}
	return c
}

func setLast(o *V, key string, val *V) bool {
	for i := len(o.Mem) - 1; i >= 0; i-- {
		if o.Mem[i].Key == key {
			o.Mem[i].Val = val
			return true
		}
	}
	return false
}

func removeAll(o *V, key string) {
	var out []refjson.KV
	for _, m := range o.Mem {
		if m.Key != key {
			out = append(out, m)
		}
	}
	o.Mem = out
}

func wrongKind(r *rand.Rand) *V {
	return []*V{obj(), str("x"), num("3"), &V{Kind: 'z'}, &V{Kind: 't'}, obj(kv("type", str("Point")))}[r.Intn(6)]
}

// positions collects pointers to the position arrays under a coordinates
// value of nesting depth d (1 = the value is itself a position).
func positionsAt(v *V, d int, out []*V) []*V {
	if v.Kind != 'a' {
		return out
	}
	if d == 1 {
		return append(out, v)
	}
	for _, e := range v.El {
		out = positionsAt(e, d-1, out)
	}
	return out
}

var coordDepthOf = map[string]int{"Point": 1, "MultiPoint": 2, "LineString": 2, "MultiLineString": 3, "Polygon": 3, "MultiPolygon": 4}

// MutationNames lists the structural mutations.
var MutationNames = []string{"type-missing", "type-nonstring", "type-unknown", "member-missing", "member-wrong-kind", "position-short", "position-nonnumeric",
	"line-one-position", "ring-three-positions", "ring-unclosed", "polygon-empty", "element-not-object", "null-outside-point", "position-not-array"}

// Mutate applies the named structural defect to a random nested GeoJSON
// object of a cloned tree; ok=false when it does not apply.
func Mutate(r *rand.Rand, root *V, name string) (*V, bool) {
	c := Clone(root)
	objs := geoObjects(c, nil)
	r.Shuffle(len(objs), func(i, j int) { objs[i], objs[j] = objs[j], objs[i] })
	for _, o := range objs {
		tv := o.Get("type")
		t := ""
		if tv != nil && tv.Kind == 's' {
			t = tv.Str
		}
		req := map[string]string{"Feature": "geometry", "GeometryCollection": "geometries", "FeatureCollection": "features"}[t]
		if req == "" {
			req = "coordinates"
		}
		switch name {
		case "type-missing":
			removeAll(o, "type")
			return c, true
		case "type-nonstring":
			setLast(o, "type", []*V{num("1"), &V{Kind: 'z'}, arr(str(t)), obj(), &V{Kind: 't'}}[r.Intn(5)])
			return c, true
		case "type-unknown":
			setLast(o, "type", str([]string{strings.ToLower(t), strings.ToUpper(t), t + "s", "", "Circle", "Geometry", " " + t}[r.Intn(7)]))
			return c, true
		case "member-missing":
			if o.Get(req) == nil {
				continue
			}
			removeAll(o, req)
			return c, true
		case "member-wrong-kind":
			orig := o.Get(req)
			if !setLast(o, req, wrongKind(r)) {
				continue
			}
			if orig != nil && r.Intn(3) == 0 {
				// the member's own value, but spelled as a JSON string
				setLast(o, req, str(Render(r, orig, false, false)))
				return c, true
			}
			if req == "geometry" {
				setLast(o, req, []*V{str("x"), num("3"), &V{Kind: 'z'}, arr(), &V{Kind: 'f'}}[r.Intn(5)])
			}
			return c, true
		}
		d, isGeom := coordDepthOf[t]
		co := o.Get("coordinates")
		if isGeom && co != nil {
			ps := positionsAt(co, d, nil)
			switch name {
			case "position-short":
				if len(ps) == 0 {
					continue
				}
				p := ps[r.Intn(len(ps))]
				p.El = p.El[:r.Intn(2)]
				return c, true
			case "position-nonnumeric":
				if len(ps) == 0 {
					continue
				}
				p := ps[r.Intn(len(ps))]
				if len(p.El) == 0 {
					continue
				}
				i := r.Intn(min(len(p.El), 4))
				p.El[i] = []*V{str("1"), &V{Kind: 't'}, arr(num("1")), obj(), &V{Kind: 'f'}}[r.Intn(5)]
				return c, true
			case "null-outside-point":
				if t == "Point" || t == "MultiPoint" || len(ps) == 0 {
					continue
				}
				p := ps[r.Intn(len(ps))]
				if len(p.El) == 0 {
					continue
				}
				p.El[r.Intn(min(len(p.El), 4))] = &V{Kind: 'z'}
				return c, true
			case "position-not-array":
				if t == "Point" || len(ps) == 0 {
					continue
				}
				// replace a position by a bare number / string / object
				var parents []*V
				parents = positionsAt(co, d-1, nil)
				if len(parents) == 0 {
					continue
				}
				p := parents[r.Intn(len(parents))]
				if len(p.El) == 0 {
					continue
				}
				p.El[r.Intn(len(p.El))] = []*V{num("5"), str("1,2"), obj(), &V{Kind: 'z'}}[r.Intn(4)]
				return c, true
			case "line-one-position":
				var lines []*V
				switch t {
				case "LineString":
					lines = []*V{co}
				case "MultiLineString":
					lines = co.El
				}
				if len(lines) == 0 {
					continue
				}
				l := lines[r.Intn(len(lines))]
				if l.Kind != 'a' {
					continue
				}
				l.El = l.El[:min(len(l.El), r.Intn(2))]
				return c, true
			case "ring-three-positions", "ring-unclosed":
				var rings []*V
				switch t {
				case "Polygon":
					rings = co.El
				case "MultiPolygon":
					for _, p := range co.El {
						if p.Kind == 'a' {
							rings = append(rings, p.El...)
						}
					}
				}
				if len(rings) == 0 {
					continue
				}
				ring := rings[r.Intn(len(rings))]
				if ring.Kind != 'a' || len(ring.El) < 4 {
					continue
				}
				if name == "ring-three-positions" {
					// keep it closed but too short: a, b, a
					ring.El = []*V{ring.El[0], ring.El[1], ring.El[len(ring.El)-1]}
					if r.Intn(2) == 0 {
						ring.El = ring.El[:r.Intn(3)]
					}
				} else {
					last := copyV(ring.El[len(ring.El)-1])
					if len(last.El) < 2 || last.El[0].Kind != 'n' {
						continue
					}
					k := r.Intn(2)
					if f, err := strconv.ParseFloat(last.El[k].Num, 64); err == nil && r.Intn(2) == 0 {
						// a near miss: the closing position is only slightly off
						last.El[k] = num(strconv.FormatFloat(f+[]float64{0.5, -0.5, 1, -1, 2.5, 0.125}[r.Intn(6)], 'f', -1, 64))
					} else {
						last.El[k] = num("123.25")
					}
					ring.El[len(ring.El)-1] = last
				}
				return c, true
			case "polygon-empty":
				switch t {
				case "Polygon":
					co.El = nil
					return c, true
				case "MultiPolygon":
					if len(co.El) == 0 {
						continue
					}
					co.El[r.Intn(len(co.El))] = arr()
					return c, true
				}
				continue
			}
		}
		if name == "element-not-object" && (t == "GeometryCollection" || t == "FeatureCollection") {
			a := o.Get(req)
			if a == nil || a.Kind != 'a' {
				continue
			}
			bad := []*V{num("1"), str("Point"), &V{Kind: 'z'}, arr(), &V{Kind: 't'}}[r.Intn(5)]
			if len(a.El) == 0 {
				a.El = []*V{bad}
			} else {
				a.El[r.Intn(len(a.El))] = bad
			}
			return c, true
		}
	}
	return nil, false
}

// TextMutations are byte-level corruptions of a rendered document.
var TextMutations = []string{"trailing", "truncate", "leading", "wrap-array", "drop-byte", "swap-byte", "random-bytes", "bom", "two-docs"}

// MutateText applies a byte-level corruption.
func MutateText(r *rand.Rand, text, name string) string {
	switch name {
	case "trailing":
		return text + []string{"x", "{}", ",", "]", " null", "}", "\x00", " 1", "\v", "\f", "\u0085", "\u00a0", "\u2028", "\u3000", " \u00a0 ", "\x1f"}[r.Intn(16)]
	case "truncate":
		if len(text) < 2 {
			return ""
		}
		return text[:r.Intn(len(text))]
	case "leading":
		return []string{"x", "[", ",", "\x00", "\x01", "\ufeff", "//c\n", "POINT(1 2)", "\v", "\f", "\u0085", "\u00a0", "\u2028", "\u3000", "\u1680 ", "\x1c"}[r.Intn(16)] + text
	case "wrap-array":
		return "[" + text + "]"
	case "drop-byte":
		if len(text) < 2 {
			return text
		}
		i := r.Intn(len(text))
		return text[:i] + text[i+1:]
	case "swap-byte":
		if len(text) < 2 {
			return text
		}
		i := r.Intn(len(text))
		repl := []byte{'"', '{', '}', '[', ']', ',', ':', ' ', 'x', '0', '-', '\\', 0x80, 0}[r.Intn(14)]
		return text[:i] + string([]byte{repl}) + text[i+1:]
	case "random-bytes":
		n := r.Intn(40)
		b := make([]byte, n)
		for i := range b {
			if r.Intn(3) == 0 {
				b[i] = `{}[]",:0 tfn`[r.Intn(12)]
			} else {
				b[i] = byte(r.Intn(256))
			}
		}
		if r.Intn(2) == 0 {
			return "{" + string(b)
		}
		return string(b)
	case "bom":
		return "\xef\xbb\xbf" + text
	case "two-docs":
		return text + text
	}
	return text
}
