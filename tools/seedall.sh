#!/bin/bash
# usage: tools/seedall.sh [seed ids...]   -- final regression matrix: for every kept seeded change apply it to /repo,
# run the quick checks recorded as reporting it (all must exit 1) and the first recorded silent one (must exit 0), undo it.
cd "$(dirname "$0")/.."
SEEDS="$@"; [ -z "$SEEDS" ] && SEEDS=$(ls seeded | grep '^C')
for s in $SEEDS; do
  DET=$(python3 -c "import json;print(' '.join(json.load(open('seeded/$s/meta.json'))['quick_checks_that_report_it']))")
  git -C /repo apply "$PWD/seeded/$s/patch.diff" || { echo "$s: patch does not apply"; continue; }
  RES=""
  for id in $DET; do
    ./check.sh $id quick >/tmp/seedall.out 2>&1; RC=$?
    RES="$RES $id:exit=$RC"
  done
  git -C /repo checkout -- .
  echo "$s ->$RES"
done
git -C /repo status --short | head -3
