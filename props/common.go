// Package props holds one workload+oracle wiring per property.
package props

import (
	"fmt"
	"math"
	"strconv"

	"github.com/tidwall/geojson/geometry"

	"verif/internal/exact"
	"verif/internal/mon"
)

// Enc is an affine re-encoding of a small integer lattice into the exact
// domain (units of 1/exact.Scale).
type Enc struct {
	Name   string
	Mul    int64 // lattice step in exact units (16 = integers, 2 = eighths)
	TX, TY int64 // translation in exact units
	NegX   bool
	NegY   bool
	Swap   bool
}

// P maps lattice (i,j).
func (e Enc) P(i, j int64) exact.P {
	if e.Swap {
		i, j = j, i
	}
	x, y := i*e.Mul, j*e.Mul
	if e.NegX {
		x = -x
	}
	if e.NegY {
		y = -y
	}
	return exact.P{X: x + e.TX, Y: y + e.TY}
}

const big20 = (1 << 20) * exact.Scale

// Encodings used by the exhaustive lattice workloads.
var encodings = []Enc{
	{Name: "int", Mul: 16},
	{Name: "eighths", Mul: 2, TX: -5, TY: 3},
	{Name: "neg", Mul: 16, NegX: true, NegY: true, TX: 16 * 3},
	{Name: "far+", Mul: 16, TX: big20 - 16*8, TY: big20 - 16*8},
	{Name: "far-", Mul: 2, TX: -(big20 - 16*8), TY: big20 - 16*9, NegY: true},
	{Name: "swap-mixed", Mul: 48, TX: -(big20 / 2), TY: 7 * 16, Swap: true, NegX: true},
}

func gpt(p exact.P) geometry.Point {
	x, y := p.Float()
	return geometry.Point{X: x, Y: y}
}

func gpts(ps []exact.P) []geometry.Point {
	out := make([]geometry.Point, len(ps))
	for i, p := range ps {
		out[i] = gpt(p)
	}
	return out
}

func gseg(s exact.Seg) geometry.Segment { return geometry.Segment{A: gpt(s.A), B: gpt(s.B)} }

func epts(ps []geometry.Point) ([]exact.P, bool) {
	out := make([]exact.P, len(ps))
	for i, p := range ps {
		q, ok := exact.FromFloat(p.X, p.Y)
		if !ok {
			return nil, false
		}
		out[i] = q
	}
	return out, true
}

// IdxCfg is a segment-index configuration.
type IdxCfg struct {
	Kind geometry.IndexKind
	Min  int // 0 = no index
}

func (c IdxCfg) String() string { return fmt.Sprintf("%s@%d", c.Kind, c.Min) }

// Opts converts to library options.
func (c IdxCfg) Opts() *geometry.IndexOptions {
	return &geometry.IndexOptions{Kind: c.Kind, MinPoints: c.Min}
}

var baseIdx = []IdxCfg{{geometry.None, 0}, {geometry.RTree, 1}, {geometry.QuadTree, 1}}

// idxFor returns index configurations for a series of n points: the three
// base ones plus thresholds n, n+1 and 64 for both kinds, rotated by k.
func idxFor(n, k int) []IdxCfg {
	extra := []IdxCfg{
		{geometry.RTree, n}, {geometry.QuadTree, n},
		{geometry.RTree, n + 1}, {geometry.QuadTree, n + 1},
		{geometry.RTree, 64}, {geometry.QuadTree, 64},
	}
	out := append([]IdxCfg{}, baseIdx...)
	out = append(out, extra[k%len(extra)])
	return out
}

func closeRing(r []exact.P) []exact.P {
	out := make([]exact.P, 0, len(r)+1)
	out = append(out, r...)
	if len(r) > 0 {
		out = append(out, r[0])
	}
	return out
}

// scribble overwrites a coordinate buffer that has been handed to a constructor, the way a caller recycling its buffer
// would: the constructors take their own copy of the positions, so nothing the library answers afterwards may depend on
// the buffer (added after seeded change C03-o, where makeSeries kept the caller's backing array).
func scribble(ps []geometry.Point) {
	for i := range ps {
		ps[i] = geometry.Point{X: 12345.5 - float64(i), Y: -54321.25 + float64(i%3)}
	}
}

// newLineOwn / newPolyOwn build from private copies of the positions and scribble over those copies afterwards.
func newLineOwn(ps []geometry.Point, opts *geometry.IndexOptions) *geometry.Line {
	buf := append([]geometry.Point(nil), ps...)
	l := geometry.NewLine(buf, opts)
	scribble(buf)
	return l
}

func newPolyOwn(ext []geometry.Point, holes [][]geometry.Point, opts *geometry.IndexOptions) *geometry.Poly {
	var e []geometry.Point
	if ext != nil {
		e = append([]geometry.Point{}, ext...)
	}
	var hs [][]geometry.Point
	for _, h := range holes {
		hs = append(hs, append([]geometry.Point{}, h...))
	}
	p := geometry.NewPoly(e, hs, opts)
	scribble(e)
	for _, h := range hs {
		scribble(h)
	}
	return p
}

// mkPoly builds a library polygon from exact rings; closed selects whether
// the closing vertex is repeated.
func mkPoly(ext exact.Ring, holes []exact.Ring, closed bool, ic IdxCfg) *geometry.Poly {
	e := []exact.P(ext)
	if closed {
		e = closeRing(e)
	}
	var hs [][]geometry.Point
	for _, h := range holes {
		hp := []exact.P(h)
		if closed {
			hp = closeRing(hp)
		}
		hs = append(hs, gpts(hp))
	}
	return newPolyOwn(gpts(e), hs, ic.Opts())
}

func mkLine(ps []exact.P, ic IdxCfg) *geometry.Line { return newLineOwn(gpts(ps), ic.Opts()) }

func mkRect(mn, mx exact.P) geometry.Rect { return geometry.Rect{Min: gpt(mn), Max: gpt(mx)} }

type jpt = [2]float64

func jp(p exact.P) jpt { x, y := p.Float(); return jpt{x, y} }
func jps(ps []exact.P) []jpt {
	out := make([]jpt, len(ps))
	for i, p := range ps {
		out[i] = jp(p)
	}
	return out
}

// PH maps half-lattice coordinates (i2, j2 in units of half a lattice step);
// Mul must be even.
func (e Enc) PH(i2, j2 int64) exact.P {
	if e.Swap {
		i2, j2 = j2, i2
	}
	x, y := i2*(e.Mul/2), j2*(e.Mul/2)
	if e.NegX {
		x = -x
	}
	if e.NegY {
		y = -y
	}
	return exact.P{X: x + e.TX, Y: y + e.TY}
}

// closedSegs returns the segments the library's rule gives a closed series of
// raw points: none below 3 points, consecutive pairs, plus an implicit closing
// segment exactly when the last point differs from the first.
func closedSegs(raw []exact.P) []exact.Seg {
	n := len(raw)
	if n < 3 {
		return nil
	}
	var out []exact.Seg
	for i := 0; i+1 < n; i++ {
		out = append(out, exact.Seg{A: raw[i], B: raw[i+1]})
	}
	if raw[n-1] != raw[0] {
		out = append(out, exact.Seg{A: raw[n-1], B: raw[0]})
	}
	return out
}

func openSegs(raw []exact.P) []exact.Seg {
	var out []exact.Seg
	for i := 0; i+1 < len(raw); i++ {
		out = append(out, exact.Seg{A: raw[i], B: raw[i+1]})
	}
	return out
}

func hashPts(h mon.H, ps []exact.P) mon.H {
	for _, p := range ps {
		h = h.I(p.X).I(p.Y)
	}
	return h.I(int64(len(ps)))
}

func shapeBox(s *exact.Shape) (mn, mx exact.P) {
	var pts []exact.P
	switch s.Kind {
	case exact.KPoly:
		pts = s.Ext
	default:
		pts = s.Pts
	}
	mn, mx = pts[0], pts[0]
	for _, p := range pts {
		mn.X, mx.X = min(mn.X, p.X), max(mx.X, p.X)
		mn.Y, mx.Y = min(mn.Y, p.Y), max(mx.Y, p.Y)
	}
	return
}

// fmtFloat renders a float the way the library's serialiser does.
func fmtFloat(f float64) string {
	if math.IsNaN(f) || math.IsInf(f, 0) {
		return "null"
	}
	return strconv.FormatFloat(f, 'f', -1, 64)
}
