package exact

import (
	"math/rand"
	"testing"

	"verif/internal/exact/slow"
)

func toSlowPt(p P) slow.Pt { return slow.P(float64(p.X), float64(p.Y)) }
func toSlowRing(r Ring) slow.Ring {
	var o slow.Ring
	for _, p := range r {
		o = append(o, toSlowPt(p))
	}
	return o
}
func toSlow(s *Shape) *slow.Shape {
	o := &slow.Shape{Kind: slow.Kind(s.Kind)}
	for _, p := range s.Pts {
		o.Pts = append(o.Pts, toSlowPt(p))
	}
	o.Ext = toSlowRing(s.Ext)
	for _, h := range s.Holes {
		o.Holes = append(o.Holes, toSlowRing(h))
	}
	return o
}

func rpt(r *rand.Rand, n int64) P { return P{r.Int63n(n), r.Int63n(n)} }

func randShape(r *rand.Rand, n int64) *Shape {
	for {
		switch r.Intn(4) {
		case 0:
			return &Shape{Kind: KPoint, Pts: []P{rpt(r, n)}}
		case 1:
			a, b := rpt(r, n), rpt(r, n)
			if a.X > b.X {
				a.X, b.X = b.X, a.X
			}
			if a.Y > b.Y {
				a.Y, b.Y = b.Y, a.Y
			}
			return &Shape{Kind: KRect, Pts: []P{a, b}}
		case 2:
			k := 2 + r.Intn(4)
			s := &Shape{Kind: KLine}
			for i := 0; i < k; i++ {
				s.Pts = append(s.Pts, rpt(r, n))
			}
			return s
		default:
			k := 3 + r.Intn(4)
			var ring Ring
			for i := 0; i < k; i++ {
				ring = append(ring, rpt(r, n))
			}
			if !ring.Simple() {
				continue
			}
			s := &Shape{Kind: KPoly, Ext: ring}
			if r.Intn(2) == 0 {
				var h Ring
				for i := 0; i < 3; i++ {
					h = append(h, rpt(r, n))
				}
				if ValidPoly(ring, []Ring{h}) {
					s.Holes = []Ring{h}
				}
			}
			return s
		}
	}
}

func TestAgainstSlow(t *testing.T) {
	r := rand.New(rand.NewSource(1))
	cnt := map[string]int{}
	for i := 0; i < 60000; i++ {
		n := int64(4 + r.Intn(6))
		a, b := randShape(r, n), randShape(r, n)
		sa, sb := toSlow(a), toSlow(b)
		if g, w := Intersects(a, b), slow.Intersects(sa, sb); g != w {
			t.Fatalf("intersects %v %v: fast %v slow %v", a, b, g, w)
		} else if g {
			cnt["i+"]++
		}
		if g, w := Contains(a, b), slow.Contains(sa, sb); g != w {
			t.Fatalf("contains %+v %+v: fast %v slow %v", a, b, g, w)
		} else if g {
			cnt["c+"]++
			if !Intersects(a, b) {
				t.Fatalf("contains without intersects")
			}
		}
		if Intersects(a, b) != Intersects(b, a) {
			t.Fatalf("asym")
		}
	}
	t.Log(cnt)
}
