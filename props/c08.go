package props

import (
	"encoding/json"
	"fmt"
	"reflect"

	"github.com/tidwall/geojson"
	"github.com/tidwall/geojson/geo"
	"github.com/tidwall/geojson/geometry"

	"verif/internal/gen"
	"verif/internal/mon"
)

// C08: Parse options never change what an object means.

type c08Case struct {
	Text    string `json:"text"`
	Options string `json:"options"`
	What    string `json:"what"`
	Base    string `json:"default_options_value,omitempty"`
	Got     string `json:"with_options_value,omitempty"`
}

// docProbes derives probes from the document itself: points at some of its
// positions (touching its extreme coordinates and vertices) and its rectangle.
func docProbes(objs []geojson.Object, rect geometry.Rect) []geojson.Object {
	var out []geojson.Object
	add := func(p geometry.Point) {
		if len(out) < 8 && p.X == p.X && p.Y == p.Y {
			out = append(out, geojson.NewPoint(p))
		}
	}
	for _, o := range objs {
		switch v := o.(type) {
		case *geojson.LineString:
			n := v.Base().NumPoints()
			for _, i := range []int{0, n / 3, n / 2, n - 1} {
				if i >= 0 && i < n {
					add(v.Base().PointAt(i))
				}
			}
		case *geojson.Polygon:
			if e := v.Base().Exterior; e != nil {
				n := e.NumPoints()
				best := 0
				for i := 0; i < n; i++ { // the vertex with the largest y: an extreme of the box
					if e.PointAt(i).Y > e.PointAt(best).Y {
						best = i
					}
				}
				for _, i := range []int{best, 0, n / 2} {
					if i >= 0 && i < n {
						add(e.PointAt(i))
					}
				}
			}
		}
	}
	if rect.Min.X == rect.Min.X && rect.Max.X == rect.Max.X {
		out = append(out, geojson.NewRect(rect), geojson.NewPoint(rect.Max), geojson.NewPoint(geometry.Point{X: rect.Min.X, Y: rect.Max.Y}))
		// circles around the rectangle's centre whose rim passes just inside / just outside its far corner
		if rect.Valid() && rect.Max.X-rect.Min.X < 40 && rect.Max.Y-rect.Min.Y < 40 {
			ctr := rect.Center()
			d := geo.DistanceTo(ctr.Y, ctr.X, rect.Max.Y, rect.Max.X)
			if d > 1 {
				out = append(out, geojson.NewCircle(ctr, d*0.9995, 64), geojson.NewCircle(ctr, d*1.0005, 64))
			}
		}
	}
	return out
}

// docAnswers evaluates the predicates against the document-derived probes.
func docAnswers(o geojson.Object, ps []geojson.Object) []byte {
	out := make([]byte, len(ps))
	for i, p := range ps {
		var b byte
		if o.Contains(p) {
			b |= 1
		}
		if o.Intersects(p) {
			b |= 4
		}
		if p.Within(o) {
			b |= 16
		}
		if p.Contains(o) {
			b |= 8
		}
		if o.Within(p) {
			b |= 2
		}
		if p.Intersects(o) {
			b |= 32
		}
		out[i] = b
	}
	return out
}

type obs struct {
	json    string
	rect    geometry.Rect
	empty   bool
	valid   bool
	npoints int
	kind    reflect.Type
	ans     []byte
}

func observe(o geojson.Object) obs {
	return obs{json: o.JSON(), rect: o.Rect(), empty: o.Empty(), valid: o.Valid(), npoints: o.NumPoints(), kind: reflect.TypeOf(o), ans: answers(o)}
}

func sameRect(a, b geometry.Rect) bool {
	return sameF(a.Min.X, b.Min.X) && sameF(a.Min.Y, b.Min.Y) && sameF(a.Max.X, b.Max.X) && sameF(a.Max.Y, b.Max.Y)
}

// treeObjects lists the object and all nested objects.
func treeObjects(o geojson.Object, out []geojson.Object) []geojson.Object {
	out = append(out, o)
	switch v := o.(type) {
	case *geojson.Feature:
		out = treeObjects(v.Base(), out)
	case geojson.Collection:
		for _, ch := range v.Children() {
			out = treeObjects(ch, out)
		}
	}
	return out
}

// selfValid: what the object "would report itself"; a Circle stands for the
// Feature/Point it was written as, so its centre decides.
func selfValid(o geojson.Object) bool {
	if c, ok := o.(*geojson.Circle); ok {
		return c.Center().Valid()
	}
	return o.Valid()
}

// circlePositions returns the indexes (in treeObjects order) of Circle objects.
func circleMarks(objs []geojson.Object) []bool {
	out := make([]bool, len(objs))
	for i, o := range objs {
		_, out[i] = o.(*geojson.Circle)
	}
	return out
}

func c08Doc(c *mon.Ctx, text string, i int) {
	c.SetCase(func() interface{} { return c08Case{Text: text, Options: "default"} })
	c.Try(func() {
		base, err := geojson.Parse(text, nil)
		if err != nil {
			c.Count("rejected_by_default")
			return
		}
		c.Count("accepted_by_default")
		bo := observe(base)
		bobjs := treeObjects(base, nil)
		bcirc := circleMarks(bobjs)
		hasCircle := false
		for _, b := range bcirc {
			hasCircle = hasCircle || b
		}
		allValid := true
		for _, o := range bobjs {
			// a collection or Feature holding a Circle derives its answer
			// from the circle's approximated rectangle, which is not a
			// position of the document: its leaves decide instead
			if _, isLeafCircle := o.(*geojson.Circle); !isLeafCircle && containsCircle(o) {
				c.Count("containers_of_circles_not_asked")
				continue
			}
			if !selfValid(o) {
				allValid = false
			}
		}
		if !allValid {
			c.Count("docs_with_invalid_object")
		}
		hasNaN := false
		for _, o := range bobjs {
			switch v := o.(type) {
			case *geojson.Point:
				if p := v.Base(); p.X != p.X || p.Y != p.Y {
					hasNaN = true
				}
			case *geojson.SimplePoint:
				if p := v.Base(); p.X != p.X || p.Y != p.Y {
					hasNaN = true
				}
			}
		}
		nKids, nPts := 0, 0
		for _, o := range bobjs {
			if col, ok := o.(geojson.Collection); ok {
				nKids = max(nKids, len(col.Children()))
			}
			switch v := o.(type) {
			case *geojson.LineString:
				nPts = max(nPts, v.Base().NumPoints())
			case *geojson.Polygon:
				if v.Base().Exterior != nil {
					nPts = max(nPts, v.Base().Exterior.NumPoints())
				}
			}
		}
		dps := docProbes(bobjs, bo.rect)
		dbase := docAnswers(base, dps)
		r := c.SubRng("opts", i)
		thr := func(n int) int { return []int{0, 1, n, n + 1, 64, 2}[r.Intn(6)] }
		mkOpts := func(kindSel int) (geojson.ParseOptions, string) {
			o := baseOpts()
			switch kindSel {
			case 0: // index options only
				o.IndexChildren, o.IndexGeometry = thr(nKids), thr(nPts)
				o.IndexGeometryKind = geometry.IndexKind(r.Intn(3))
			case 1:
				o.AllowSimplePoints = true
			case 2:
				o.AllowRects = true
			case 3:
				o.AllowSimplePoints, o.AllowRects = true, true
				o.IndexChildren, o.IndexGeometry = thr(nKids), thr(nPts)
				o.IndexGeometryKind = geometry.IndexKind(r.Intn(3))
			case 4:
				o.RequireValid = true
			case 5:
				o.RequireValid = true
				o.AllowSimplePoints, o.AllowRects = r.Intn(2) == 0, r.Intn(2) == 0
				o.IndexChildren, o.IndexGeometry = thr(nKids), thr(nPts)
				o.IndexGeometryKind = geometry.IndexKind(r.Intn(3))
			}
			return o, fmt.Sprintf("%+v", o)
		}
		for sel := 0; sel < 6; sel++ {
			if sel == 3 && i%2 == 0 {
				continue
			}
			po, name := mkOpts(sel)
			c.SetCase(func() interface{} { return c08Case{Text: text, Options: name} })
			bad := func(what, b, g string) {
				c.Violation(what, "parse option changes an observable: "+what, c08Case{Text: text, Options: name, What: what, Base: truncate(b, 600), Got: truncate(g, 600)})
			}
			o, err := geojson.Parse(text, &po)
			c.Eval()
			c.Count(fmt.Sprintf("optionset_%d", sel))
			if po.RequireValid {
				if (err == nil) != allValid {
					if err == nil {
						bad("requirevalid-accepts-invalid", "some object reports itself invalid under default options", "accepted")
					} else {
						bad("requirevalid-rejects-valid", "every object reports itself valid under default options", "error: "+err.Error())
					}
					continue
				}
				if err != nil {
					c.Count("requirevalid_rejections")
					continue
				}
				for _, n := range treeObjects(o, nil) {
					if _, isLeafCircle := n.(*geojson.Circle); !isLeafCircle && containsCircle(n) {
						continue
					}
					if !selfValid(n) {
						bad("requirevalid-returns-invalid", "", truncate(n.JSON(), 300))
					}
				}
			} else if err != nil {
				bad("option-changes-acceptance", "accepted", "error: "+err.Error())
				continue
			}
			oo := observe(o)
			if oo.json != bo.json {
				bad("json", bo.json, oo.json)
			}
			if string(oo.ans) != string(bo.ans) {
				c08AnswersDiffer(c, text, name, &po, bo.ans, oo.ans, hasNaN, bad)
			}
			if !hasNaN {
				if dgot := docAnswers(o, dps); string(dgot) != string(dbase) {
					c.Count("doc_probe_differences")
					bad("predicate-answers-at-own-vertices", fmt.Sprint(dbase), fmt.Sprint(dgot))
				}
			}
			if !sameRect(oo.rect, bo.rect) || oo.empty != bo.empty || oo.valid != bo.valid {
				bad("rect-empty-valid", fmt.Sprint(bo.rect, bo.empty, bo.valid), fmt.Sprint(oo.rect, oo.empty, oo.valid))
			}
			repr := po.AllowRects || po.AllowSimplePoints
			if !repr {
				if oo.npoints != bo.npoints {
					bad("numpoints", fmt.Sprint(bo.npoints), fmt.Sprint(oo.npoints))
				}
				if oo.kind != bo.kind {
					bad("kind", fmt.Sprint(bo.kind), fmt.Sprint(oo.kind))
				}
			} else {
				if oo.kind != bo.kind {
					c.Count("representation_changed_kind")
				}
			}
			if hasCircle {
				objs := treeObjects(o, nil)
				cm := circleMarks(objs)
				same := len(cm) == len(bcirc)
				if same {
					for k := range cm {
						if cm[k] != bcirc[k] {
							same = false
						}
					}
				}
				c.Count("circle_docs_checked")
				if !same {
					bad("circle-not-recognised", "Circle objects at the same places as under default options", fmt.Sprintf("%T ...", o))
				}
			}
		}
		for _, b := range bo.ans {
			if b != 0 {
				c.Count("probe_hits")
				c.NonTrivial(uint64(mon.NewH().S(text)))
				break
			}
		}
	})
}

// c08AnswersDiffer classifies a difference between the predicate answers of
// the default-options parse and of the parse under other options.
func c08AnswersDiffer(c *mon.Ctx, text, optName string, po *geojson.ParseOptions, base, got []byte, hasNaN bool, bad func(what, b, g string)) {
	cs := c08Case{Text: text, Options: optName, What: "predicate-answers", Base: fmt.Sprint(base), Got: fmt.Sprint(got)}
	if hasNaN {
		// F25: a null ordinate (NaN) in a point makes rectangles and the child index inconsistent
		c.KnownOrViolation("F25", "predicate-answers", "answers change with the options on a document holding a null (NaN) ordinate", cs)
		return
	}
	// F26: only containment answers against probes with extent differ, and the
	// geometry index configuration differs from the default one
	ps := probes()
	onlyContainment := true
	for i := range base {
		d := base[i] ^ got[i]
		if d == 0 {
			continue
		}
		if d&0b100100 != 0 { // an intersects answer changed
			onlyContainment = false
		}
		switch ps[i].(type) {
		case *geojson.Point, *geojson.SimplePoint:
			onlyContainment = false
		}
	}
	geomIndexDiffers := po.IndexGeometry != 64 || po.IndexGeometryKind != geometry.QuadTree
	if onlyContainment && geomIndexDiffers {
		c.KnownOrViolation("F26", "predicate-answers", "a contains/within answer depends on the geometry index configuration", cs)
		return
	}
	bad("predicate-answers", fmt.Sprint(base), fmt.Sprint(got))
}

func c08Run(c *mon.Ctx) {
	n := c.Pick(600000, 8000000)
	for i := 0; i < n; i++ {
		if !c.Mine(i) {
			continue
		}
		r := c.SubRng("doc", i)
		o := gen.DefaultDocOpts()
		o.MaxDepth = 1 + r.Intn(4)
		o.MaxKids = 1 + r.Intn(4)
		o.LongFirst = false
		o.OutOfRange = i%2 == 0
		o.BigOften = i%5 == 0
		o.Nulls = i%3 == 0
		o.OddNums = i%4 == 0
		tree := gen.GenDoc(r, o, 0)
		text := gen.Render(r, tree, i%4 == 0, false)
		c08Doc(c, text, i)
		if i < 48 && i%16 == c.Shard && c.WantSample() {
			c.Sample(map[string]interface{}{"text": truncate(text, 300)})
		}
	}
}

func c08Replay(kind string, raw json.RawMessage) (bool, string) {
	var cs c08Case
	if err := json.Unmarshal(raw, &cs); err != nil {
		return false, err.Error()
	}
	p := mon.Lookup("C08")
	// the option sets are drawn from the case index; try a spread of indexes
	var n int64
	var first string
	for i := 0; i < 24 && n == 0; i++ {
		n, _, first = mon.ReplayRun(p, func(c *mon.Ctx) { c08Doc(c, cs.Text, i) })
	}
	return n > 0, fmt.Sprintf("violations=%d %s", n, first)
}

func init() {
	mon.Register(&mon.Prop{
		ID:          "C08",
		Rule:        "grammar-generated documents (all types, Circle convention, polygons in and near the exact rectangle form, out-of-range coordinates at any nesting position, geometries/collections straddling the thresholds) parsed under the default options and under 5-6 option sets drawn from {index thresholds 0,1,n,n+1,64 for children and geometry x index kind None/RTree/QuadTree, AllowSimplePoints, AllowRects, both, RequireValid alone and combined}; observables JSON, Rect, Empty, Valid, NumPoints, Go kind and Contains/Within/Intersects against 14 probes in both operand orders are compared with the default-options object; RequireValid must accept exactly when every object of the default parse tree reports itself valid and must return only valid objects. Non-trivial = distinct accepted text for which some probe predicate is true.",
		Assumptions: []string{"metamorphic, oracle-free: the default-options parse is the reference", "NumPoints and Go kind are compared only for index options (the representation options may change the Go type; a Rect counts 2 points by design)", "a Circle object stands for the Feature/Point it was written as: its centre decides 'would report itself invalid'"},
		Run:         c08Run,
		Replay:      c08Replay,
		MustSee:     []string{"accepted_by_default", "probe_hits", "requirevalid_rejections", "docs_with_invalid_object", "circle_docs_checked", "representation_changed_kind", "optionset_0", "optionset_5"},
	})
}
