// Command verif is the single driver/worker binary of the monitors.
//
//	verif check <ID> [--tier quick|thorough]
//	verif worker <ID> <tier> <seed> <shard> <nshards> <outdir>   (internal)
//	verif replay <file>
//	verif list
package main

import (
	"fmt"
	"os"
	"strconv"

	"verif/internal/mon"
	_ "verif/props"
)

func main() {
	if len(os.Args) < 2 {
		fmt.Println("usage: verif check <ID> [--tier quick|thorough] | replay <file> | list")
		os.Exit(2)
	}
	switch os.Args[1] {
	case "list":
		for _, id := range mon.IDs() {
			fmt.Println(id)
		}
	case "check":
		if len(os.Args) < 3 {
			os.Exit(2)
		}
		tier := os.Getenv("VERIF_TIER")
		for i := 3; i < len(os.Args); i++ {
			if os.Args[i] == "--tier" && i+1 < len(os.Args) {
				tier = os.Args[i+1]
			}
		}
		if tier != "thorough" {
			tier = "quick"
		}
		seed := int64(1)
		if v := os.Getenv("VERIF_SEED"); v != "" {
			if n, err := strconv.ParseInt(v, 10, 64); err == nil {
				seed = n
			}
		}
		os.Exit(mon.Check(os.Args[2], tier, seed))
	case "worker":
		a := os.Args[2:]
		if len(a) != 6 {
			os.Exit(2)
		}
		p := mon.Lookup(a[0])
		if p == nil {
			os.Exit(2)
		}
		seed, _ := strconv.ParseInt(a[2], 10, 64)
		shard, _ := strconv.Atoi(a[3])
		n, _ := strconv.Atoi(a[4])
		os.Exit(mon.RunWorker(p, a[1], seed, shard, n, a[5]))
	case "replay":
		if len(os.Args) < 3 {
			os.Exit(2)
		}
		os.Exit(mon.Replay(os.Args[2]))
	default:
		os.Exit(2)
	}
}
