package props

import (
	"encoding/json"
	"fmt"

	"github.com/tidwall/geojson"
	"github.com/tidwall/geojson/geometry"

	"verif/internal/exact"
	"verif/internal/gen"
	"verif/internal/mon"
)

// C01: point membership is exact, at geometry and object level, under every
// segment-index configuration.

type c01Case struct {
	Kind  string    `json:"kind"` // poly, line, rect, point
	Ext   []jpt     `json:"exterior,omitempty"`
	Holes [][]jpt   `json:"holes,omitempty"`
	Pts   []jpt     `json:"points,omitempty"`
	Query jpt       `json:"query"`
	Index string    `json:"index"`
	API   string    `json:"api"`
	Got   bool      `json:"got"`
	Want  bool      `json:"want"`
	Moved []float64 `json:"moved_by,omitempty"` // shape translated through Move(); the query is translated alike
}

type c01Shape struct {
	kind  string
	ext   []exact.P
	holes [][]exact.P
	pts   []exact.P      // line vertices / rect min,max / point
	off   geometry.Point // non-zero while the shape under test has been translated through Move()
}

func (s *c01Shape) oracle() func(p exact.P) bool {
	switch s.kind {
	case "poly":
		es := closedSegs(s.ext)
		var hs [][]exact.Seg
		for _, h := range s.holes {
			hs = append(hs, closedSegs(h))
		}
		return func(p exact.P) bool {
			if exact.Locate(es, p) < 0 {
				return false
			}
			for _, h := range hs {
				if exact.Locate(h, p) > 0 {
					return false
				}
			}
			return true
		}
	case "line":
		segs := openSegs(s.pts)
		return func(p exact.P) bool {
			for _, sg := range segs {
				if exact.OnSeg(sg.A, sg.B, p) {
					return true
				}
			}
			return false
		}
	case "rect":
		mn, mx := s.pts[0], s.pts[1]
		return func(p exact.P) bool { return p.X >= mn.X && p.X <= mx.X && p.Y >= mn.Y && p.Y <= mx.Y }
	}
	q := s.pts[0]
	return func(p exact.P) bool { return p == q }
}

func (s *c01Shape) mkCase(q exact.P, ic IdxCfg, api string, got, want bool) c01Case {
	cs := c01Case{Kind: s.kind, Ext: jps(s.ext), Pts: jps(s.pts), Query: jp(q), Index: ic.String(), API: api, Got: got, Want: want}
	for _, h := range s.holes {
		cs.Holes = append(cs.Holes, jps(h))
	}
	if s.off != (geometry.Point{}) {
		cs.Moved = []float64{s.off.X, s.off.Y}
	}
	return cs
}

// build returns the geometry-level and object-level instances.
func (s *c01Shape) build(ic IdxCfg) (geometry.Geometry, geojson.Object) {
	switch s.kind {
	case "poly":
		var hs [][]geometry.Point
		for _, h := range s.holes {
			hs = append(hs, gpts(h))
		}
		p := newPolyOwn(gpts(s.ext), hs, ic.Opts())
		return p, geojson.NewPolygon(p)
	case "line":
		l := newLineOwn(gpts(s.pts), ic.Opts())
		return l, geojson.NewLineString(l)
	case "rect":
		r := mkRect(s.pts[0], s.pts[1])
		return r, geojson.NewRect(r)
	}
	p := gpt(s.pts[0])
	return p, geojson.NewPoint(p)
}

// c01Probe judges every API level for one (shape, query) pair.
func c01Probe(c *mon.Ctx, s *c01Shape, g geometry.Geometry, o geojson.Object, feat geojson.Object, q exact.P, want bool, ic IdxCfg, objLevel bool) {
	gq := gpt(q)
	gq.X, gq.Y = gq.X+s.off.X, gq.Y+s.off.Y
	bad := func(api string, got bool) {
		c.Violation("membership", api+" differs from exact planar membership", s.mkCase(q, ic, api, got, want))
	}
	c.Eval()
	if got := g.ContainsPoint(gq); got != want {
		bad("geometry.ContainsPoint", got)
	}
	if got := g.IntersectsPoint(gq); got != want {
		bad("geometry.IntersectsPoint", got)
	}
	switch v := g.(type) {
	case *geometry.Poly:
		if got := gq.IntersectsPoly(v); got != want {
			bad("Point.IntersectsPoly", got)
		}
	case *geometry.Line:
		if got := gq.IntersectsLine(v); got != want {
			bad("Point.IntersectsLine", got)
		}
	case geometry.Rect:
		if got := gq.IntersectsRect(v); got != want {
			bad("Point.IntersectsRect", got)
		}
	}
	if !objLevel {
		return
	}
	c.Count("object_level_probes")
	for pi, pt := range []geojson.Object{geojson.NewPoint(gq), geojson.NewSimplePoint(gq), geojson.NewFeature(geojson.NewPoint(gq), "")} {
		pn := [...]string{"Point", "SimplePoint", "Feature(Point)"}[pi]
		for oi, ob := range []geojson.Object{o, feat} {
			on := [...]string{"obj", "Feature(obj)"}[oi]
			if got := ob.Contains(pt); got != want {
				bad(on+".Contains("+pn+")", got)
			}
			if got := pt.Within(ob); got != want {
				bad(pn+".Within("+on+")", got)
			}
			if got := ob.Intersects(pt); got != want {
				bad(on+".Intersects("+pn+")", got)
			}
			if got := pt.Intersects(ob); got != want {
				bad(pn+".Intersects("+on+")", got)
			}
		}
	}
}

// exact translations (every lattice coordinate plus the delta is representable)
var c01Moves = []geometry.Point{{X: 8, Y: -3}, {X: 0, Y: 5}, {X: -2.5, Y: 0}, {X: 1024, Y: 4096}, {X: -0.0625, Y: 0.125}}

// c01Shape runs all query points against a shape under the index configs.
func c01RunShape(c *mon.Ctx, s *c01Shape, qs []exact.P, cfgs []IdxCfg, objEvery int) (inside int) {
	orc := s.oracle()
	want := make([]bool, len(qs))
	for i, q := range qs {
		want[i] = orc(q)
		if want[i] {
			inside++
		}
	}
	c.SetCase(func() interface{} { return s.mkCase(exact.P{}, IdxCfg{}, "(shape under test)", false, false) })
	c.Try(func() {
		for ci, ic := range cfgs {
			g, o := s.build(ic)
			feat := geojson.NewFeature(o, "")
			for i, q := range qs {
				c01Probe(c, s, g, o, feat, q, want[i], ic, objEvery > 0 && (i+ci)%objEvery == 0)
			}
		}
		// the same shape translated by the library through Move(), queries translated alike
		d := c01Moves[(len(s.ext)+len(s.pts)+len(qs)+inside)%len(c01Moves)]
		ic := cfgs[(len(qs)+inside)%len(cfgs)]
		g, o := s.build(ic)
		switch v := g.(type) {
		case *geometry.Poly:
			mv := v.Move(d.X, d.Y)
			g, o = mv, geojson.NewPolygon(mv)
		case *geometry.Line:
			mv := v.Move(d.X, d.Y)
			g, o = mv, geojson.NewLineString(mv)
		case geometry.Rect:
			mv := v.Move(d.X, d.Y)
			g, o = mv, geojson.NewRect(mv)
		case geometry.Point:
			mv := v.Move(d.X, d.Y)
			g, o = mv, geojson.NewPoint(mv)
		}
		s.off = d
		defer func() { s.off = geometry.Point{} }()
		feat := geojson.NewFeature(o, "")
		for i, q := range qs {
			c01Probe(c, s, g, o, feat, q, want[i], ic, objEvery > 0 && i%(4*objEvery) == 0)
		}
		c.Count("moved_shapes")
	})
	return inside
}

// c01Parsed: the same ring written as a GeoJSON document and parsed under the
// representation options (a five-position ring may become a Rect, points
// SimplePoints): object-level membership must still be the exact one.
func c01Parsed(c *mon.Ctx, s *c01Shape, qs []exact.P, n int) {
	orc := s.oracle()
	txt := nPoly(gpts(s.ext)).JSON()
	po := baseOpts()
	po.AllowRects, po.AllowSimplePoints = true, n%2 == 0
	po.IndexGeometry, po.IndexGeometryKind = 1+n%3, geometry.IndexKind(n%3)
	c.SetCase(func() interface{} { return map[string]interface{}{"text": txt, "options": fmt.Sprintf("%+v", po)} })
	c.Try(func() {
		obj, err := geojson.Parse(txt, &po)
		if err != nil {
			return
		}
		c.Count("parsed_with_allowrects")
		if _, isRect := obj.(*geojson.Rect); isRect {
			c.Count("parsed_as_rect")
		}
		for _, q := range qs {
			want := orc(q)
			gq := gpt(q)
			c.Eval()
			for pi, pt := range []geojson.Object{geojson.NewPoint(gq), geojson.NewSimplePoint(gq)} {
				if got := obj.Contains(pt); got != want || pt.Within(obj) != want || obj.Intersects(pt) != want || pt.Intersects(obj) != want {
					cs := s.mkCase(q, IdxCfg{}, fmt.Sprintf("Parse(AllowRects=true,AllowSimplePoints=%v) %T vs %s", po.AllowSimplePoints, obj, [...]string{"Point", "SimplePoint"}[pi]), got, want)
					c.Violation("membership-parsed", "object parsed under the representation options answers differently from exact planar membership", cs)
					return
				}
			}
		}
	})
}

func c01Run(c *mon.Ctx) {
	item := 0
	// (a) exhaustive small rings x half-lattice points x 3 index configs
	type space struct {
		k, L int64
	}
	spaces := []space{{4, 3}, {4, 4}, {5, 4}}
	if c.Thorough() {
		spaces = []space{{4, 3}, {4, 4}, {5, 4}, {4, 5}, {6, 4}, {5, 5}}
	}
	for _, sp := range spaces {
		k2 := sp.k * sp.k
		total := int64(1)
		for i := int64(0); i < sp.L; i++ {
			total *= k2
		}
		for code := int64(0); code < total; code++ {
			item++
			if !c.Mine(item) {
				continue
			}
			enc := encodings[int(code)%len(encodings)]
			raw := make([]exact.P, sp.L)
			v := code
			for i := range raw {
				d := v % k2
				v /= k2
				raw[i] = enc.P(d/sp.k, d%sp.k)
			}
			var qs []exact.P
			for i := int64(-2); i <= 2*sp.k; i++ {
				for j := int64(-2); j <= 2*sp.k; j++ {
					qs = append(qs, enc.PH(i, j))
				}
			}
			for _, closed := range []bool{false, true} {
				s := &c01Shape{kind: "poly", ext: raw}
				if closed {
					s.ext = closeRing(raw)
				}
				objEvery := 0
				if code%16 == 3 {
					objEvery = 5
				}
				in := c01RunShape(c, s, qs, baseIdx, objEvery)
				if closed && len(s.ext) >= 4 && code%4 == 1 {
					c01Parsed(c, s, qs, int(code))
				}
				if in > 0 && !closed {
					c.NonTrivial(uint64(hashPts(mon.NewH().I(sp.k), raw)))
				}
			}
			if code%50021 == 11 && c.WantSample() {
				c.Sample(map[string]interface{}{"kind": "exhaustive-ring", "lattice": sp.k, "encoding": enc.Name, "ring": jps(raw), "queries": len(qs), "index_configs": 3})
			}
		}
	}
	c.Count("exhaustive_done")

	// (b) corpus rings with holes (valid and arbitrary) x point lattice
	for ri, nr := range gen.Corpus {
		for variant := 0; variant < c.Pick(6, 24); variant++ {
			item++
			if !c.Mine(item) {
				continue
			}
			r := c.SubRng("corpus", ri*100+variant)
			enc := encodings[(ri+variant)%len(encodings)]
			ring := make([]exact.P, len(nr.V))
			for i, v := range nr.V {
				ring[i] = enc.P(v[0], v[1])
			}
			ring = gen.Rotate(ring, variant%len(ring))
			if variant%2 == 1 {
				ring = gen.Reverse(ring)
			}
			s := &c01Shape{kind: "poly", ext: ring}
			if variant%3 != 2 {
				s.ext = closeRing(ring)
			}
			x0, y0, x1, y1 := nr.Box()
			nh := variant % 3
			for h := 0; h < nh; h++ {
				// arbitrary small hole on the half lattice (may touch or cross the exterior)
				hx, hy := 2*x0+r.Int63n(2*(x1-x0)), 2*y0+r.Int63n(2*(y1-y0))
				var hole []exact.P
				m := 3 + r.Intn(3)
				for i := 0; i < m; i++ {
					hole = append(hole, enc.PH(hx+r.Int63n(4), hy+r.Int63n(4)))
				}
				if r.Intn(2) == 0 {
					hole = closeRing(hole)
				}
				s.holes = append(s.holes, hole)
			}
			var qs []exact.P
			for i := 2*x0 - 2; i <= 2*x1+2; i++ {
				for j := 2*y0 - 2; j <= 2*y1+2; j++ {
					qs = append(qs, enc.PH(i, j))
				}
			}
			in := c01RunShape(c, s, qs, idxFor(len(s.ext), variant), 3)
			c.Count("corpus_polys")
			if nh > 0 {
				c.Count("polys_with_holes")
			}
			if in > 0 {
				c.NonTrivial(uint64(hashPts(mon.NewH().S(nr.Name).I(int64(variant)), s.ext)))
			}
		}
	}

	// (c) random arbitrary rings of 5..300 vertices, queries snapped to vertex levels
	nRand := c.Pick(6000, 200000)
	for i := 0; i < nRand; i++ {
		item++
		if !c.Mine(item) {
			continue
		}
		r := c.SubRng("rand", i)
		enc := encodings[r.Intn(len(encodings))]
		n := 5 + r.Intn(12)
		switch r.Intn(6) {
		case 0:
			n = 60 + r.Intn(12) // straddles the default index threshold
		case 1:
			n = 100 + r.Intn(200)
		}
		span := int64(4 + r.Intn(40))
		var ring []exact.P
		for len(ring) < n {
			p := enc.P(r.Int63n(span), r.Int63n(span))
			ring = append(ring, p)
			if r.Intn(10) == 0 {
				ring = append(ring, p) // repeated vertex
			}
			if r.Intn(10) == 0 && len(ring) > 1 { // collinear run
				a := ring[len(ring)-2]
				ring = append(ring, exact.P{X: 2*p.X - a.X, Y: 2*p.Y - a.Y})
			}
		}
		s := &c01Shape{kind: "poly", ext: ring}
		if r.Intn(2) == 0 {
			s.ext = closeRing(ring)
		}
		for h := r.Intn(3); h > 0; h-- {
			var hole []exact.P
			m := 3 + r.Intn(5)
			for j := 0; j < m; j++ {
				hole = append(hole, enc.P(r.Int63n(span), r.Int63n(span)))
			}
			s.holes = append(s.holes, hole)
		}
		var qs []exact.P
		for j := 0; j < 60; j++ {
			a, b := ring[r.Intn(len(ring))], ring[r.Intn(len(ring))]
			q := exact.P{X: a.X, Y: b.Y}
			switch r.Intn(4) {
			case 0:
				q = a
			case 1:
				if (a.X+b.X)%2 == 0 && (a.Y+b.Y)%2 == 0 {
					q = exact.P{X: (a.X + b.X) / 2, Y: (a.Y + b.Y) / 2}
				}
			case 2:
				q = exact.P{X: a.X + (r.Int63n(5) - 2), Y: b.Y}
			}
			qs = append(qs, q)
		}
		cfgs := append(idxFor(len(s.ext), i), IdxCfg{geometry.QuadTree, 64})
		in := c01RunShape(c, s, qs, cfgs, 7)
		c.Count("random_rings")
		if len(s.ext) >= 64 {
			c.Count("random_rings_ge64")
		}
		if in > 0 {
			c.NonTrivial(uint64(hashPts(mon.NewH().I(int64(i)), s.ext)))
		}
		if i < 40 && c.WantSample() && i%16 == c.Shard {
			c.Sample(map[string]interface{}{"kind": "random-ring", "vertices": len(s.ext), "holes": len(s.holes), "first_vertices": jps(ring[:4]), "queries": len(qs), "inside": in})
		}
	}

	// (d) lines, rectangles (degenerate included), points
	nLR := c.Pick(4000, 100000)
	for i := 0; i < nLR; i++ {
		item++
		if !c.Mine(item) {
			continue
		}
		r := c.SubRng("linerect", i)
		enc := encodings[r.Intn(len(encodings))]
		span := int64(3 + r.Intn(10))
		var s *c01Shape
		var ref []exact.P
		switch i % 3 {
		case 0:
			n := r.Intn(9)
			if r.Intn(8) == 0 {
				n = 64 + r.Intn(80)
			}
			var pts []exact.P
			for j := 0; j < n; j++ {
				p := enc.P(r.Int63n(span), r.Int63n(span))
				if j > 0 && r.Intn(5) == 0 {
					p = pts[j-1]
				}
				pts = append(pts, p)
			}
			s = &c01Shape{kind: "line", pts: pts}
			ref = pts
		case 1:
			a, b := enc.P(r.Int63n(span), r.Int63n(span)), enc.P(r.Int63n(span), r.Int63n(span))
			if r.Intn(5) == 0 {
				b.X = a.X
			}
			if r.Intn(5) == 0 {
				b.Y = a.Y
			}
			s = &c01Shape{kind: "rect", pts: []exact.P{{X: min(a.X, b.X), Y: min(a.Y, b.Y)}, {X: max(a.X, b.X), Y: max(a.Y, b.Y)}}}
			ref = s.pts
		default:
			s = &c01Shape{kind: "point", pts: []exact.P{enc.P(r.Int63n(span), r.Int63n(span))}}
			ref = s.pts
		}
		var qs []exact.P
		for j := 0; j < 40; j++ {
			q := enc.PH(r.Int63n(2*span+2)-1, r.Int63n(2*span+2)-1)
			if len(ref) > 0 {
				a, b := ref[r.Intn(len(ref))], ref[r.Intn(len(ref))]
				switch r.Intn(4) {
				case 0:
					q = a
				case 1:
					if (a.X+b.X)%2 == 0 && (a.Y+b.Y)%2 == 0 {
						q = exact.P{X: (a.X + b.X) / 2, Y: (a.Y + b.Y) / 2}
					}
				case 2:
					q = exact.P{X: a.X, Y: b.Y}
				}
			}
			qs = append(qs, q)
		}
		in := c01RunShape(c, s, qs, idxFor(len(s.pts), i), 2)
		c.Count("shapes_" + s.kind)
		if in > 0 {
			c.NonTrivial(uint64(hashPts(mon.NewH().S(s.kind).I(int64(i)), s.pts)))
		}
	}
}

func c01Replay(kind string, raw json.RawMessage) (bool, string) {
	var cs c01Case
	if err := json.Unmarshal(raw, &cs); err != nil {
		return false, err.Error()
	}
	conv := func(js []jpt) []exact.P {
		var out []exact.P
		for _, j := range js {
			p, _ := exact.FromFloat(j[0], j[1])
			out = append(out, p)
		}
		return out
	}
	s := &c01Shape{kind: cs.Kind, ext: conv(cs.Ext), pts: conv(cs.Pts)}
	for _, h := range cs.Holes {
		s.holes = append(s.holes, conv(h))
	}
	q, _ := exact.FromFloat(cs.Query[0], cs.Query[1])
	want := s.oracle()(q)
	var out []string
	bad := false
	for _, ic := range append(append([]IdxCfg{}, baseIdx...), IdxCfg{geometry.QuadTree, 64}, IdxCfg{geometry.RTree, 64}) {
		g, o := s.build(ic)
		gq := gpt(q)
		if len(cs.Moved) == 2 {
			gq.X, gq.Y = gq.X+cs.Moved[0], gq.Y+cs.Moved[1]
			switch v := g.(type) {
			case *geometry.Poly:
				mv := v.Move(cs.Moved[0], cs.Moved[1])
				g, o = mv, geojson.NewPolygon(mv)
			case *geometry.Line:
				mv := v.Move(cs.Moved[0], cs.Moved[1])
				g, o = mv, geojson.NewLineString(mv)
			case geometry.Rect:
				mv := v.Move(cs.Moved[0], cs.Moved[1])
				g, o = mv, geojson.NewRect(mv)
			case geometry.Point:
				mv := v.Move(cs.Moved[0], cs.Moved[1])
				g, o = mv, geojson.NewPoint(mv)
			}
		}
		a, b := g.ContainsPoint(gq), o.Contains(geojson.NewPoint(gq))
		if a != want || b != want {
			bad = true
		}
		out = append(out, fmt.Sprintf("%s:geom=%v obj=%v", ic, a, b))
	}
	return bad, fmt.Sprintf("want %v; %v", want, out)
}

func init() {
	mon.Register(&mon.Prop{
		ID:          "C01",
		Rule:        "exhaustive: every ring of 3 and 4 vertices on the 4x4 lattice (thorough: also 5 vertices on 4x4 and 4 on 5x5), unclosed and closed, x every half-lattice query point of the box +-1, x {no index, R-tree@1, quadtree@1}, under a rotating affine re-encoding; plus corpus rings with 0-2 arbitrary holes, random vertex sequences of 5..300 vertices (repeated vertices, collinear runs, self-intersections, >=64 to cross the default index threshold) with queries snapped to vertex levels, lines, rectangles (degenerate included) and points; object level (Point, SimplePoint, Feature wrappers x Contains/Within/Intersects in both operand orders) on a rotating subset. Non-trivial = distinct shape for which at least one query point was inside or on the shape.",
		Assumptions: []string{"coordinates in the exact domain (multiples of 1/8, |c| <= 2^20)", "oracle: crossing parity with the half-open rule over exactly the segments the series rule defines (internal/exact.Locate)"},
		Exhaustive:  func(string) bool { return true },
		Run:         c01Run,
		MustSee:     []string{"parsed_with_allowrects", "parsed_as_rect", "exhaustive_done", "moved_shapes", "object_level_probes", "polys_with_holes", "random_rings_ge64", "shapes_line", "shapes_rect", "shapes_point"},
		Replay:      c01Replay,
	})
}
