#!/usr/bin/env python3
"""Summarise evidence/<ID>.json and replays/<ID>/*.json compactly: viol.py ID [max_examples] [width]"""
import json, glob, sys, collections
pid = sys.argv[1]; mx = int(sys.argv[2]) if len(sys.argv) > 2 else 3; w = int(sys.argv[3]) if len(sys.argv) > 3 else 400
e = json.load(open('evidence/%s.json' % pid))
cov = e['coverage']
print('evals', cov['evaluations'], 'distinct', cov['distinct_nontrivial'], 'wall', round(e['wall_s'], 1), 'viol', e['violations'])
print('violation counters:', {k: v for k, v in cov['counters'].items() if k.startswith('violation:')})
print('known:', cov['known_findings_observed'], 'stale:', cov['stale_known'], 'inconclusive:', cov['inconclusive'], 'harness:', cov['harness_errors'])
by = collections.defaultdict(list)
for f in sorted(glob.glob('replays/%s/*.json' % pid)):
    d = json.load(open(f)); by[d['kind']].append(d)
for k, ds in by.items():
    print('==', k, len(ds), 'kept')
    for d in ds[:mx]:
        print('  detail:', d['detail'][:w].replace('\n', ' | '))
        print('  case:', json.dumps(d['case'])[:w])
