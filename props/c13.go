package props

import (
	"encoding/json"
	"fmt"
	"math"
	"math/rand"

	"github.com/tidwall/geojson"
	"github.com/tidwall/geojson/geometry"

	"verif/internal/mon"
	"verif/internal/sphere"
)

// C13: Circle objects mean 'within great-circle distance of the centre'.

type c13Case struct {
	Center    []float64 `json:"center_lon_lat"`
	Meters    float64   `json:"meters"`
	Steps     int       `json:"steps"`
	Probe     []float64 `json:"probe_lon_lat,omitempty"`
	ProbeDist float64   `json:"probe_reference_distance,omitempty"`
	Other     []float64 `json:"other_circle_lon_lat_meters,omitempty"`
	What      string    `json:"what"`
	Got       string    `json:"got"`
	Want      string    `json:"want"`
}

func c13Tol(r float64) float64 { return math.Max(1e-3, 1e-8*r) }

func c13Radius(r *rand.Rand) float64 {
	switch r.Intn(10) {
	case 0:
		return math.Pow(10, r.Float64()*3-3) // sub-metre
	case 1:
		return 1 + r.Float64()*10
	case 2:
		return piR - math.Pow(10, r.Float64()*8-2) // up to just below half the circumference
	case 3:
		return []float64{0, 1, 1000, 1e6, piR / 2, piR}[r.Intn(6)]
	default:
		return math.Pow(10, r.Float64()*7.3)
	}
}

func c13Run(c *mon.Ctx) {
	n := c.Pick(3000000, 60000000) / c.NShards
	r := c.Rng
	for i := 0; i < n; i++ {
		lat, lon := sampleLoc(r)
		m := c13Radius(r)
		if m > piR {
			m = piR
		}
		steps := []int{64, 64, 64, 4, 8, 12, 100, 3, 0, -5, 360, 4096}[r.Intn(12)]
		if m > 1e6 && steps > 400 {
			steps = 64
		}
		center := geometry.Point{X: lon, Y: lat}
		mkc := func(what, got, want string) c13Case {
			return c13Case{Center: []float64{lon, lat}, Meters: m, Steps: steps, What: what, Got: got, Want: want}
		}
		c.SetCase(func() interface{} { return mkc("circle under test", "", "") })
		c.Try(func() {
			circ := geojson.NewCircle(center, m, steps)
			tol := c13Tol(m)
			// ---- point probes at controlled reference distances ----
			for k := 0; k < 10; k++ {
				var d float64
				switch k {
				case 0:
					d = m * (1 - math.Pow(10, -float64(1+r.Intn(12))))
				case 1:
					d = m * (1 + math.Pow(10, -float64(1+r.Intn(12))))
				case 2:
					d = m - tol*(1.001+2*r.Float64())
				case 3:
					d = m + tol*(1.001+2*r.Float64())
				case 4:
					d = m * r.Float64()
				case 5:
					d = m * (1 + r.Float64())
				case 6:
					d = m - tol*1.0001
				case 7:
					d = m + tol*1.0001
				case 8:
					d = 0
				default:
					d = m + (r.Float64()*2-1)*tol*0.9 // inside the undecided band
				}
				if d < 0 || d > piR {
					continue
				}
				brg := r.Float64() * 360
				if steps >= 3 && r.Intn(3) == 0 {
					// on or half-way between polygon vertices
					brg = 90 - (float64(r.Intn(steps))+0.5*float64(r.Intn(2)))*360/float64(steps)
				}
				pl, pn := sphere.Dest(lat, lon, d, brg)
				ref := sphere.Dist(lat, lon, pl, pn)
				p := geometry.Point{X: pn, Y: pl}
				var want int // +1 must be true, -1 must be false, 0 undecided
				switch {
				case ref <= m-tol*(1+1e-6):
					want = 1
				case ref >= m+tol*(1+1e-6):
					want = -1
				}
				pt, sp := geojson.NewPoint(p), geojson.NewSimplePoint(p)
				answers := []struct {
					name string
					v    bool
				}{
					{"Circle.Contains(Point)", circ.Contains(pt)}, {"Circle.Contains(SimplePoint)", circ.Contains(sp)},
					{"Circle.Intersects(Point)", circ.Intersects(pt)}, {"Circle.Intersects(SimplePoint)", circ.Intersects(sp)},
					{"Point.Within(Circle)", pt.Within(circ)}, {"SimplePoint.Within(Circle)", sp.Within(circ)},
					{"Point.Intersects(Circle)", pt.Intersects(circ)}, {"SimplePoint.Intersects(Circle)", sp.Intersects(circ)},
				}
				c.Eval()
				if want == 0 {
					c.Count("probes_in_undecided_band")
				} else {
					c.Count("probes_decided")
				}
				for _, a := range answers {
					if a.v != answers[0].v {
						cs := mkc(a.name, fmt.Sprint(a.v), fmt.Sprint(answers[0].v)+" (Circle.Contains(Point))")
						cs.Probe, cs.ProbeDist = []float64{pn, pl}, ref
						c.Violation("paths-disagree", "point-in-circle answers differ between Point/SimplePoint or operand orders", cs)
						break
					}
				}
				if want != 0 && answers[0].v != (want == 1) {
					cs := mkc("Circle.Contains(Point)", fmt.Sprint(answers[0].v), fmt.Sprint(want == 1))
					cs.Probe, cs.ProbeDist = []float64{pn, pl}, ref
					if piR-m < 1 && math.Abs(ref-m) < 0.3 {
						c.KnownOrViolation("F22", "point-in-circle", "radius within 1 m of half the circumference: the haversine is flat there", cs)
					} else {
						c.Violation("point-in-circle", fmt.Sprintf("point at reference distance %.6f from a circle of radius %.6f (tolerance %.3g)", ref, m, tol), cs)
					}
				}
				// monotone in the radius: a bigger circle around the same centre
				if answers[0].v && want == 1 && k%3 == 0 {
					big := geojson.NewCircle(center, math.Min(piR, m*(1+r.Float64())+2*tol), steps)
					if !big.Contains(pt) {
						cs := mkc("monotone", "false", "true")
						cs.Probe, cs.ProbeDist = []float64{pn, pl}, ref
						c.Violation("not-monotone", "a point contained by a circle is not contained by a larger concentric one", cs)
					}
					c.Count("monotone_checked")
				}
				if math.Abs(ref-m) < 10*tol {
					c.NonTrivial(uint64(mon.NewH().U(math.Float64bits(lat)).U(math.Float64bits(lon)).U(math.Float64bits(m)).U(math.Float64bits(ref))))
				}
			}
			// ---- serialisation ----
			js := circ.JSON()
			wantJS := fmt.Sprintf(`{"type":"Feature","geometry":{"type":"Point","coordinates":[%s,%s]},"properties":{"type":"Circle","radius":%s,"radius_units":"m"}}`, ff(lon), ff(lat), ff(m))
			if js != wantJS {
				// another spelling of the same form (member order, number format) is accepted; the structure is not negotiable
				if why := circleFormDiff(js, lon, lat, m); why != "" {
					c.Violation("json-form", "Circle JSON differs from the Feature/Point/properties form: "+why, mkc("JSON", js, wantJS))
				}
				c.Count("json_form_other_spelling")
			}
			back, err := geojson.Parse(js, nil)
			if err != nil {
				c.Violation("reparse", "Circle JSON does not parse: "+err.Error(), mkc("Parse(JSON)", js, ""))
			} else if bc, ok := back.(*geojson.Circle); !ok {
				c.Violation("reparse", "Circle JSON does not parse back to a Circle", mkc("Parse(JSON)", fmt.Sprintf("%T", back), "*Circle"))
			} else if bc.Center() != center || bc.Meters() != m {
				c.Violation("reparse", "centre or radius changed through JSON", mkc("Parse(JSON)", fmt.Sprint(bc.Center(), bc.Meters()), fmt.Sprint(center, m)))
			}
			if i%7 == 0 && m >= 1000 {
				km := fmt.Sprintf(`{"type":"Feature","geometry":{"type":"Point","coordinates":[%s,%s]},"properties":{"type":"Circle","radius":%s,"radius_units":"km"}}`, ff(lon), ff(lat), ff(m/1000))
				if o, err := geojson.Parse(km, nil); err != nil {
					c.Violation("reparse-km", "km circle rejected", mkc("Parse(km)", err.Error(), ""))
				} else if kc, ok := o.(*geojson.Circle); !ok || kc.Meters() != (m/1000)*1000 {
					c.Violation("reparse-km", "km radius not converted to metres", mkc("Parse(km)", fmt.Sprint(o), fmt.Sprint(m)))
				}
				c.Count("km_checked")
			}
			// ---- polygon approximation ----
			if m > 0 && math.Abs(lat)+m/sphere.R*180/math.Pi < 89 && m < 5e6 {
				poly, ok := circ.Polygon().(*geojson.Polygon)
				if !ok {
					c.Violation("polygon", "Polygon() is not a polygon", mkc("Polygon()", fmt.Sprintf("%T", circ.Polygon()), "*Polygon"))
					return
				}
				ring := poly.Base().Exterior
				np := ring.NumPoints()
				es := steps
				if es < 3 {
					es = 3
				}
				if np < 4 || ring.PointAt(0) != ring.PointAt(np-1) {
					c.Violation("polygon", "polygon approximation is not a closed ring", mkc("Polygon()", fmt.Sprint(np, ring.PointAt(0), ring.PointAt(np-1)), "closed"))
				}
				rc := poly.Rect()
				if !(rc.Min.X <= lon && lon <= rc.Max.X && rc.Min.Y <= lat && lat <= rc.Max.Y) {
					c.Violation("polygon", "the polygon's rectangle does not contain the centre", mkc("Polygon().Rect()", fmt.Sprint(rc), fmt.Sprint(center)))
				}
				// centred: every vertex has its mirror image about the centre at the same lon/lat offsets
				if es%2 == 0 && 180-math.Abs(lon) > m/sphere.R*180/math.Pi/math.Cos(lat*math.Pi/180)+1 {
					wx, wy := (rc.Max.X-rc.Min.X)/2, (rc.Max.Y-rc.Min.Y)/2
					cx, cy := (rc.Max.X+rc.Min.X)/2, (rc.Max.Y+rc.Min.Y)/2
					if math.Abs(cx-lon) > 1e-6*wx+1e-12 || math.Abs(cy-lat) > 1e-6*wy+1e-12 {
						c.Violation("polygon", "the polygon approximation is not centred on the centre", mkc("Polygon()", fmt.Sprint(cx, cy), fmt.Sprint(lon, lat)))
					}
					c.Count("polygon_centred_checked")
				}
				c.Count("polygons_checked")
			}
			// queries must leave nothing behind: the same serialisation and radius afterwards
			circ.Rect()
			circ.Valid()
			circ.Intersects(geojson.NewRect(geometry.Rect{Min: center, Max: center}))
			if js2 := circ.JSON(); js2 != js || circ.Meters() != m || circ.Center() != center {
				c.Violation("changed-by-query", "a circle serialises differently (or reports another radius) after it has been queried", mkc("JSON after queries", js2, wantJS))
			}
			c.Count("requeried_after_use")
		})
		// ---- circle / circle ----
		c.Try(func() {
			if m < 1 || m > 5e6 || math.Abs(lat)+2.2*m/sphere.R*180/math.Pi > 85 {
				return
			}
			halfLon := 2.2 * m / sphere.R * 180 / math.Pi / math.Cos(lat*math.Pi/180)
			if 180-math.Abs(lon) < halfLon {
				return
			}
			a := geojson.NewCircle(center, m, 64)
			m2 := m * []float64{0.1, 0.5, 0.9, 1, 1.1, 0.999999, 0.3}[r.Intn(7)]
			// centre distance placed relative to the two decision boundaries
			var d float64
			switch r.Intn(6) {
			case 0:
				d = (m - m2) * (1 - 1e-3*r.Float64()) // B just inside A
			case 1:
				d = (m-m2)*(1+1e-3*r.Float64()) + 1e-3*m // B just not inside A
			case 2:
				d = (m + m2) * (1 - 1e-3*r.Float64() - 1e-6)
			case 3:
				d = (m+m2)*(1+1e-3*r.Float64()) + 1e-3*m
			default:
				d = (m + m2) * 1.2 * r.Float64()
			}
			if d < 0 {
				d = 0
			}
			bl, bn := sphere.Dest(lat, lon, d, r.Float64()*360)
			if r.Intn(4) == 0 {
				// the partner on the same parallel (bit-identical latitude), east or west
				if q := math.Sin(d/(2*sphere.R)) / math.Cos(lat*math.Pi/180); q < 1 {
					dl := 2 * math.Asin(q) * 180 / math.Pi
					if r.Intn(2) == 0 {
						dl = -dl
					}
					if nl := lon + dl; math.Abs(nl) < 179 {
						bl, bn = lat, nl
						c.Count("circle_pairs_same_parallel")
					}
				}
			}
			if math.Abs(bl)+1.1*m2/sphere.R*180/math.Pi > 85 {
				return
			}
			b := geojson.NewCircle(geometry.Point{X: bn, Y: bl}, m2, 64)
			ref := sphere.Dist(lat, lon, bl, bn)
			// the library estimates the centre distance from the rectangles of
			// the two polygon approximations: allow a part in 10^5 of the radii
			tolc := c13Tol(m+m2) + 1e-5*(m+m2)
			mk := func(what, got, want string) c13Case {
				return c13Case{Center: []float64{lon, lat}, Meters: m, Steps: 64, Other: []float64{bn, bl, m2}, ProbeDist: ref, What: what, Got: got, Want: want}
			}
			c.Eval()
			c.Count("circle_pairs")
			ac, ai, bi := a.Contains(b), a.Intersects(b), b.Intersects(a)
			if ac && ref+m2 > m+tolc {
				c.Violation("circle-contains-circle", "A contains B although centre distance + radius of B exceeds radius of A", mk("A.Contains(B)", "true", "false"))
			}
			if !ac && ref+m2 < m-tolc {
				c.Count("contained_circle_not_reported")
			}
			if ac {
				c.Count("circle_contains_circle_true")
			}
			if ai != bi {
				c.Violation("circle-intersects-asymmetric", "A.Intersects(B) differs from B.Intersects(A)", mk("Intersects", fmt.Sprint(ai, bi), "equal"))
			}
			if ref <= m+m2-tolc && !ai {
				c.Violation("circle-intersects-circle", "circles whose centre distance is below the sum of radii do not intersect", mk("A.Intersects(B)", "false", "true"))
			}
			if ref >= m+m2+tolc && ai {
				c.Violation("circle-intersects-circle", "circles whose centre distance exceeds the sum of radii intersect", mk("A.Intersects(B)", "true", "false"))
			}
			if b.Within(a) != ac {
				c.Violation("circle-within", "B.Within(A) differs from A.Contains(B)", mk("B.Within(A)", fmt.Sprint(!ac), fmt.Sprint(ac)))
			}
		})
		// ---- circle / circle with large radii: when the radii sum to more
		// than half the circumference the two discs always share a point ----
		if i%5 == 0 {
			c.Try(func() {
				ra := piR * (0.3 + 0.7*r.Float64())
				rb := piR * (0.3 + 0.7*r.Float64())
				if ra+rb < piR*1.001 {
					return
				}
				bl, bn := sampleLoc(r)
				a := geojson.NewCircle(center, ra, 64)
				b := geojson.NewCircle(geometry.Point{X: bn, Y: bl}, rb, 64)
				c.Eval()
				c.Count("large_circle_pairs")
				if !a.Intersects(b) || !b.Intersects(a) {
					c.Violation("circle-intersects-circle", "two circles whose radii sum to more than half the circumference do not intersect",
						c13Case{Center: []float64{lon, lat}, Meters: ra, Steps: 64, Other: []float64{bn, bl, rb}, ProbeDist: sphere.Dist(lat, lon, bl, bn), What: "A.Intersects(B)", Got: fmt.Sprint(a.Intersects(b), b.Intersects(a)), Want: "true true"})
				}
			})
		}
		if i < 3 && c.WantSample() {
			c.Sample(c13Case{Center: []float64{lon, lat}, Meters: m, Steps: steps, What: "circle with 10 point probes at controlled distances, serialisation, polygon, one partner circle"})
		}
	}
	// totality and serialisation for radii outside the distance claims
	for _, m := range []float64{-1, -1e9, -0.001, -3.5, math.NaN(), math.Inf(1), 2 * piR, 1e12, 2.5e7, 40030174, 5e7, piR + 1, 1e19, -1e19, 9.3e18, 1e100, math.MaxFloat64, 1 << 53, 1<<53 + 2, 123456789012345680} {
		for _, steps := range []int{-1, 0, 2, 3, 4, 64} {
			c.SetCase(func() interface{} {
				return c13Case{Center: []float64{10, 20}, Meters: m, Steps: steps, What: "out-of-domain radius"}
			})
			c.Try(func() {
				circ := geojson.NewCircle(geometry.Point{X: 10, Y: 20}, m, steps)
				js := circ.JSON()
				if !json.Valid([]byte(js)) {
					c.Violation("json-form", "invalid JSON for an out-of-domain radius", c13Case{Meters: m, Steps: steps, Got: js})
				}
				circ.Contains(geojson.NewPoint(geometry.Point{X: 10, Y: 20}))
				circ.Intersects(geojson.NewPoint(geometry.Point{X: 11, Y: 20}))
				if !math.IsNaN(m) && !math.IsInf(m, 0) {
					circ.Rect()
					circ.Polygon()
					circ.Valid()
					if circ.JSON() != js || circ.Meters() != m {
						c.Violation("changed-by-query", "a circle with an out-of-domain radius serialises differently after it has been queried", c13Case{Meters: m, Steps: steps, Got: circ.JSON(), Want: js})
					}
					// the serialised form parses back to a Circle with the same centre and radius
					for _, po := range []*geojson.ParseOptions{nil, {AllowSimplePoints: true}} {
						back, err := geojson.Parse(js, po)
						bc, ok := back.(*geojson.Circle)
						if err != nil || !ok {
							c.Violation("reparse", "the serialised circle with an out-of-domain radius does not parse back to a Circle", c13Case{Meters: m, Steps: steps, Got: fmt.Sprint(err), Want: js})
						} else if bc.Meters() != m || bc.Center() != circ.Center() {
							c.Violation("reparse", "a circle with an out-of-domain radius parses back with another radius or centre", c13Case{Meters: m, Steps: steps, Got: fmt.Sprint(bc.Meters(), bc.Center()), Want: fmt.Sprint(m, circ.Center())})
						}
					}
					c.Count("out_of_domain_reparsed")
				}
				c.Count("out_of_domain_radii")
			})
		}
	}
}

// circleFormDiff checks the structure {"type":"Feature","geometry":{"type":"Point","coordinates":[lon,lat]},
// "properties":{"type":"Circle","radius":m,"radius_units":"m"}} with exact values, whatever the spelling.
func circleFormDiff(js string, lon, lat, m float64) string {
	var top map[string]json.RawMessage
	if err := json.Unmarshal([]byte(js), &top); err != nil {
		return "not a JSON object: " + err.Error()
	}
	var typ string
	if json.Unmarshal(top["type"], &typ) != nil || typ != "Feature" || len(top) != 3 {
		return "top level is not {type:Feature, geometry, properties}"
	}
	var g struct {
		Type        string        `json:"type"`
		Coordinates []json.Number `json:"coordinates"`
	}
	var gm map[string]json.RawMessage
	if json.Unmarshal(top["geometry"], &g) != nil || json.Unmarshal(top["geometry"], &gm) != nil || g.Type != "Point" || len(g.Coordinates) != 2 || len(gm) != 2 {
		return "geometry is not a two-ordinate Point"
	}
	x, e1 := g.Coordinates[0].Float64()
	y, e2 := g.Coordinates[1].Float64()
	if e1 != nil || e2 != nil || x != lon || y != lat {
		return fmt.Sprintf("centre %v,%v is not %v,%v", g.Coordinates[0], g.Coordinates[1], lon, lat)
	}
	var pr map[string]json.RawMessage
	if json.Unmarshal(top["properties"], &pr) != nil || len(pr) != 3 {
		return "properties is not {type, radius, radius_units}"
	}
	var pt, pu string
	var rad json.Number
	if json.Unmarshal(pr["type"], &pt) != nil || pt != "Circle" || json.Unmarshal(pr["radius_units"], &pu) != nil || pu != "m" || json.Unmarshal(pr["radius"], &rad) != nil {
		return "properties do not say type Circle, radius, radius_units m"
	}
	if v, err := rad.Float64(); err != nil || v != m {
		return fmt.Sprintf("radius %v is not %v", rad, m)
	}
	return ""
}

func ff(f float64) string {
	b, _ := json.Marshal(f)
	_ = b
	return fmtFloat(f)
}

func init() {
	mon.Register(&mon.Prop{
		ID:          "C13",
		Rule:        "random circles (centres biased to poles and antimeridian; radii sub-metre .. half the circumference incl. boundary values; step counts -5..4096) each probed by 10 points placed at controlled reference distances (r(1+-10^-k), r+-(1.001..3) tol, r+-1.0001 tol, inside the undecided band, interior, exterior, the centre) on random bearings and on/between polygon vertices, through Point and SimplePoint, Contains/Intersects/Within in both operand orders; monotonicity in the radius; JSON layout and reparse (m and km); closedness, centre containment and centring of the polygon approximation; circle/circle pairs placed around the containment and intersection boundaries. Non-trivial = distinct probe within 10 tolerances of the circle.",
		Assumptions: []string{"reference distance: internal/sphere; decided only outside +-tol(1+1e-6), tol = max(1 mm, 1e-8 r)", "circle/circle is asserted away from poles and the antimeridian and with an allowance of 1e-5 of the radii for the library's centre-distance estimate", "known finding F22 (radius within 1 m of half the circumference) is matched with a magnitude bound"},
		Run:         c13Run,
		MustSee:     []string{"probes_decided", "probes_in_undecided_band", "monotone_checked", "km_checked", "polygons_checked", "polygon_centred_checked", "circle_pairs", "circle_pairs_same_parallel", "circle_contains_circle_true", "out_of_domain_radii", "out_of_domain_reparsed", "large_circle_pairs", "requeried_after_use"},
	})
}
