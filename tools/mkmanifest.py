#!/usr/bin/env python3
"""Regenerates /verif/MANIFEST.json from the table below (run from /verif)."""
import json, os, subprocess

ALL = ["C%02d" % i for i in range(1, 20)]

# id -> (technique, level text, level note, design section)
CHECKS = {
 "C01": ("reference-model monitor: exact crossing-parity oracle over exhaustive small rings x half-lattice points x index configurations, plus random and corpus shapes, geometry and object level",
         "Every contains-point/intersects-point answer the workload produces (geometry level under no index / R-tree / quadtree, object level through Point, SimplePoint and Feature wrappers in both operand orders) is compared with exact planar membership computed in integers. Small lattices are enumerated completely; larger shapes are sampled. Held on what was observed.",
         "Trusted: internal/exact.Locate (half-open crossing rule), float exactness on the stated coordinate domain.", "6 C01"),
 "C02": ("reference-model monitor: exact planar intersection oracle over an enumerated contact corpus and contact-biased random valid pairs, both operand orders, geometry and object level",
         "Every intersects answer (A.Intersects(B) and B.Intersects(A), geometry level under three index configurations, object level) is compared with exact closed-set intersection computed in integers; a fixed corpus of 16 rings enumerates every segment/point/rectangle contact configuration of their lattice neighbourhood; random pairs cover all 16 kind combinations with holes.",
         "Trusted: internal/exact.Intersects (cross-checked against an independent big.Rat implementation; symmetry asserted on every call).", "6 C02"),
 "C03": ("reference-model monitor with decision-site tracing: exact containment oracle, leaf oracles on hooked return sites for attribution, committed snapshot of known wrong answers",
         "Every contains answer of the workload (same corpus and random families as C02) is compared with exact containment; each call is traced through the verif hook and a wrong answer is attributed to the leaf decisions that disagree with their own oracle. Wrong answers are reported unless they are one of the listed known findings: F5/F4 (matched by a committed snapshot of 312516 enumerated corpus cases, and by decision site on random cases) or F24 (covered hole, matched by an exact predicate).",
         "Trusted: internal/exact.Contains and the leaf oracles; the tracer hook (tag verif) only reports, it never changes results.", "6 C03"),
 "C04": ("reference-model monitor: brute-force segment search oracle + oracle-free cross-index comparison of predicates and moved shapes",
         "Every Search call is compared, as a multiset of (index, segment) callbacks, with a brute-force scan of the index-free series using the harness' own box test; early stop is checked at four stop positions; sizes cross every item-width and node-split boundary up to 70000 points; predicates and Move()d shapes are compared across index configurations. Layouts include same-signed ordinates of 1e308..1.7e308 (Min+Max overflows).",
         "Trusted: NumSegments/SegmentAt of the index-free series (checked separately by C18); index bytes are never decoded.", "6 C04"),
 "C05": ("totality monitors: recover()-based panic monitor, step-budget hook in the Line.ContainsLine walk, no-progress watchdog with isolated confirmation, Parse object-xor-error, journal for process-fatal events (thorough tier under -race/checkptr)",
         "All 22 operation groups (every method of Object, Spatial, Collection, geometry.Geometry, Series) are executed on ordered pairs of degenerate constructor objects, random trees, adversarial line pairs and parsed objects; Parse is driven with grammar documents, every structural mutant class, byte corruptions, every-offset truncations and nesting up to 5000/10000 under 17 option combinations. A panic, an exceeded step budget, a confirmed hang, a crash or a (nil,nil)/(obj,err) result is a violation. One accepted or rejected text in three is parsed a second time straight away under the same options (must return, same outcome).",
         "'Never loops forever' is restated as bounded progress (step budget + 90 s no-progress watchdog); unbounded liveness is out of reach of any finite run.", "6 C05"),
 "C06": ("round-trip monitor: Parse/JSON/Parse fixpoint + differential comparison of the output with an independent reading of the input",
         "Each accepted grammar-generated text is serialised, reparsed and reserialised (byte equality, same Go kind, equal predicate answers against 14 probes) and the output is decoded by the reference reader and compared with the reference reading of the input: type, x/y bit for bit, z/m, child order, ordered foreign members, properties on Features. Known finding F10 (Circle objects) is matched narrowly.",
         "Trusted: encoding/json token stream and strconv.ParseFloat as the reference decoder.", "6 C06"),
 "C07": ("differential monitor: library Parse versus an independent reference GeoJSON reader over grammar documents, per-defect structural mutants and byte-level corruptions",
         "Every text is classified by the reference reader strictly by the wording of the property; well-formed texts must be accepted and decode to the same type/nesting/order/x,y, texts with a listed defect must be rejected with an error and no object, anything else is counted as unclassified and not asserted. Known finding F11 is matched narrowly.",
         "Trusted: internal/refjson (encoding/json based).", "6 C07"),
 "C08": ("metamorphic monitor (oracle-free): the default-options parse is the reference for every other option set; RequireValid judged over the whole parse tree",
         "Each generated document is parsed under the default options and under index-option, representation-option and RequireValid sets (thresholds 0,1,n,n+1,64; all index kinds); JSON, rectangle, emptiness, validity, point count, Go kind and the predicate answers against 14 probes in both operand orders must not change (kind and point count only for index options); Circle features must stay Circles; RequireValid must reject exactly when some object of the default parse tree reports itself invalid and must return only valid objects.",
         "Trusted: nothing beyond the default-options parse as reference.", "6 C08"),
 "C09": ("algebraic-law monitor (oracle-free) over ordered pairs of all 12 object kinds, with tracer attribution of failed consequences",
         "Duality, symmetry, contains=>intersects and rect-covers, intersects=>rects-meet, self-containment, and the transparency of Feature / Rect / SimplePoint / leaf objects are asserted literally on every generated pair (144 kind combinations, nested collections, constructor and Parse builds). Circle pairs are asserted only outside a band where its two code paths may legitimately differ (counted inconclusive). Failures are attributed to known findings F4/F5/F15 narrowly or reported. A circle that contains a point at most 0.99 of its radius away must cover it with its rectangle (circles sharing four radii over latitudes -40..40).",
         "Trusted: nothing beyond the laws themselves; the tracer hook is used only to attribute.", "6 C09"),
 "C10": ("reference-model monitor: brute-force composition oracle over Children() using the library's own leaf-against-leaf answers",
         "Intersects, Contains, Within, Empty, Rect, NumPoints, child order and child Search (set equality, early stop) of collections with 0..200 children are compared with the statement's definitions evaluated by brute force; built by constructors and by Parse under child-index thresholds {0,1,count,count+1,64}; indexed and unindexed builds are compared directly.",
         "Trusted: leaf-against-leaf predicate answers of the library (judged by C01-C03). Known finding F15 is matched when a Feature wraps a collection.", "6 C10"),
 "C11": ("reference-model monitor: direct min/max, range and emptiness computation over a harness-side object model, constructors and Parse paths",
         "Rect, Center, Valid and Empty of every object and nested object of generated trees (all kinds, special float values, empties, single-child collections, exhaustive short sequences) are compared with values computed directly from the model's positions. Known findings F20/F21 are matched by narrow predicates. Every LineString and Polygon is also translated through Base().Move() after it has been queried, re-wrapped and judged against the translated model.",
         "Trusted: the harness' own model tree (props/model.go).", "6 C11"),
 "C12": ("metamorphic monitor (oracle-free): answers before and after exact transformations and re-encodings must be equal; exact oracle and tracer only to attribute a difference",
         "For each contact-biased valid pair the four predicate answers are recomputed under 12 exact affine maps of both shapes, under Move(), every rotation of each ring's start vertex, reversal, hole re-ordering and closing-vertex toggling; any change is a violation unless the wrong side is explained by the listed decision sites of F4/F5 or by F24. Collections, nested collections and Features are compared at object level under seven exact maps; a difference counts only when the composition of the leaf answers is unchanged.",
         "Trusted: exactness of the transformations on the lattice domain (inexact ones are skipped and counted).", "6 C12"),
 "C13": ("reference-model monitor: 3-vector great-circle reference with tolerance bands, controlled-distance probes, path-agreement and serialisation checks",
         "Each generated circle is probed by points placed at controlled reference distances around its rim (decided only outside +-tol), through Point and SimplePoint and both operand orders; monotonicity in the radius, circle/circle containment and intersection around their boundaries, exact JSON layout and reparse (m, km), and the polygon approximation's closedness/centring are checked. Known finding F22 is matched with a magnitude bound.",
         "Trusted: internal/sphere (error < 1e-5 m, checked by a 200-bit residual).", "6 C13"),
 "C14": ("reference-model monitor: reference disc sampling (cardinal, tangent-longitude, random rim and interior probes) against the returned rectangle",
         "Every rectangle is checked for NaN, world bounds, full longitude range when the reference disc reaches a pole, and coverage within 1 cm of ~30 reference probes of the disc, for centres biased to poles/antimeridian and radii families including 'disc just reaches the pole +- nanometres'. Known finding F18 is matched with both bounds.",
         "Trusted: internal/sphere; only coverage is demanded, not tightness.", "6 C14"),
 "C15": ("reference-model and inverse-consistency monitor over great-circle primitives with singularity-directed sampling",
         "Symmetry and zero on identical locations (within the stated tolerance), range, agreement with the reference distance, destination range, distance-back and conditioned bearing-back, haversine round trip and strict monotonicity, NormalizeDistance idempotence, semicircle round trip and Object.Distance of point-like objects are checked on 40 M tuples (quick). Known finding F19 is matched with a magnitude bound.",
         "Trusted: internal/sphere; near the antipode the haversine's own resolution is allowed for.", "6 C15"),
 "C16": ("Go race detector over barrier-released convoy/scatter rounds on fresh object pools + history monitor (every concurrent result equals the result of the same call run alone)",
         "A -race build runs 64 rounds (quick) of 32 goroutines (96 every fourth round) over a fresh pool of ~70 objects of all kinds (Z/M ordinates, foreign members, collections nested eight deep): first every object is hit by all goroutines at once (its very first use is contended; partners come from an already used pool), then seeded mixed operations on hot receivers; then goroutines parse documents concurrently; then 96 goroutines hold a child search open at the same time; GOMAXPROCS alternates 2/16. Any race report (deduplicated by outermost library frames) or any result differing from the sequential baseline is a violation. The monitor keeps per-goroutine logs merged after the join so that it does not synchronise what it watches.",
         "The race detector only sees accesses the workload performs; all exported methods of all kinds are executed.", "6 C16"),
 "C17": ("output monitor: JSON validity, structural decoding, append contract with aliasing sentinels over objects from every constructor and special floats",
         "Every object and nested object built through all public constructors (NaN/Inf/-0/extreme ordinates, hostile member strings) and through Parse is serialised four ways; outputs must agree, AppendJSON must append without touching the prefix (checked with spare capacity and an aliasing slice), the bytes must be valid JSON of the right type and nesting depth, ordinates must round-trip bit-exactly and non-finite ones must be null.",
         "Trusted: encoding/json as JSON validator/decoder.", "6 C17"),
 "C18": ("reference-model monitor: turn-sign and shoelace oracle over exhaustive vertex sequences and all rotations/closures",
         "Convex, Clockwise, NumSegments/SegmentAt, Empty, NumPoints/PointAt of closed and open series are compared with direct integer definitions for every vertex sequence up to length 5 on the 4x4 lattice (more in thorough) and for random rings at every rotation and both closures.",
         "Trusted: integer orientation predicate; where consecutive duplicate vertices make 'turn' ambiguous either reading is accepted (counted separately).", "6 C18"),
 "C19": ("reference-model monitor: exact integer orientation oracle over exhaustive lattice + biased random kernel calls",
         "Every Raycast / IntersectsSegment (both operand orders) / ContainsSegment / ContainsPoint / CollinearPoint / Rect call made by the workload is judged by an independent exact-integer oracle; the small lattice is enumerated completely under six affine re-encodings, the 2^20 lattice is sampled with degeneracy-biased generators.",
         "Trusted: internal/exact int64 predicates (cross-checked against a big.Rat implementation), exactness of float arithmetic on the stated coordinate domain.", "6 C19"),
}
PENDING = {}

def main():
    hooks_commits = []
    try:
        out = subprocess.run(["git", "-C", "/repo", "log", "--format=%H %s"], capture_output=True, text=True).stdout
        for line in out.splitlines():
            h, _, s = line.partition(" ")
            if s.startswith("verif hook:"):
                hooks_commits.append(h)
    except Exception:
        pass
    checks = []
    for pid in ALL:
        if pid not in CHECKS:
            continue
        tech, text, note, ref = CHECKS[pid]
        checks.append({
            "property_id": pid,
            "quick_cmd": "./check.sh %s quick" % pid,
            "thorough_cmd": "./check.sh %s thorough" % pid,
            "evidence_file": "/verif/evidence/%s.json" % pid,
            "replay_cmd_template": "./replay.sh {path}",
            "engine": "verif",
            "level_claimed": {"category": "exploration", "text": text, "design_ref": "DESIGN.md section " + ref},
            "level_note": note,
            "technique": tech,
        })
    na = [{"property_id": p, "reason": PENDING.get(p, "check not built yet (work in progress in this repository state); nothing is claimed for it")}
          for p in ALL if p not in CHECKS]
    m = {
        "version": 1,
        "setup_cmd": "./setup.sh",
        "hooks": {
            "guard": "verif",
            "enable": "go build -tags verif (done by ./check.sh; /repo is compiled from its working tree through the replace directive in /verif/go.mod)",
            "baseline_off_cmd": "cd /repo && GOFLAGS=-mod=mod GOPROXY=off GOSUMDB=off go test -vet=off -count=1 -timeout 25m ./...",
            "source_commits": hooks_commits,
            "add_only": True,
        },
        "engines": [{"name": "verif", "path": "/verif/cmd/verif", "serves_properties": [c["property_id"] for c in checks],
                     "kind_free_text": "Go driver that forks 16 worker processes per check; workers drive the real library with generated workloads and judge every observation with reference-model / metamorphic / race-detector monitors"}],
        "checks": checks,
        "not_applicable": na,
        "notes": "Runtime monitoring only. Known findings are listed in /verif/known_findings.json; see DESIGN.md.",
    }
    json.dump(m, open("MANIFEST.json", "w"), indent=1)
    print("wrote MANIFEST.json with", len(checks), "checks;", len(na), "not claimed")

main()
