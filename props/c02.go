package props

import (
	"encoding/json"
	"fmt"

	"verif/internal/exact"
	"verif/internal/mon"
)

// C02: Intersects is exact planar intersection and symmetric.

func c02Judge(c *mon.Ctx, a, b *exact.Shape, family string, closedA bool, cfgs []IdxCfg, objLevel, scaled bool) {
	want := exact.Intersects(a, b)
	if exact.Intersects(b, a) != want {
		panic("oracle self-check: exact.Intersects is not symmetric")
	}
	c.SetCase(func() interface{} { return pairCase(a, b, map[string]interface{}{"family": family}) })
	c.Try(func() {
		for _, ic := range cfgs {
			la, lb := buildLib(a, ic, closedA), buildLib(b, ic, !closedA)
			ab, ba := gIntersects(la, lb), gIntersects(lb, la)
			c.Eval()
			if ab != want || ba != want {
				kind := "intersects"
				if ab != ba {
					kind = "intersects-asymmetric"
				}
				c.Violation(kind, fmt.Sprintf("%s/%s: A.Intersects(B)=%v B.Intersects(A)=%v, exact=%v", a.Kind, b.Kind, ab, ba, want),
					pairCase(a, b, map[string]interface{}{"family": family, "index": ic.String(), "closed_a": closedA, "a_intersects_b": ab, "b_intersects_a": ba, "want": want}))
			}
			if objLevel {
				oab, oba := la.obj.Intersects(lb.obj), lb.obj.Intersects(la.obj)
				if oab != want || oba != want {
					c.Violation("intersects-object", fmt.Sprintf("%s/%s object level: %v %v, exact=%v", a.Kind, b.Kind, oab, oba, want),
						pairCase(a, b, map[string]interface{}{"family": family, "index": ic.String(), "closed_a": closedA, "a_intersects_b": oab, "b_intersects_a": oba, "want": want}))
				}
			}
		}
	})
	if scaled {
		enc := allEncs[int(uint64(hashShape(mon.NewH(), b))%uint64(len(allEncs)))]
		sc := enc.Name
		c.Try(func() {
			ic := cfgs[int(uint64(hashShape(mon.NewH(), a))%uint64(len(cfgs)))]
			la, lb := buildLibEnc(a, ic, closedA, enc), buildLibEnc(b, ic, !closedA, enc)
			ab, ba := gIntersects(la, lb), gIntersects(lb, la)
			c.Eval()
			c.Count("scaled_pairs")
			if ab != want || ba != want {
				c.Violation("intersects-scaled", fmt.Sprintf("%s/%s under the exact encoding %s: A.Intersects(B)=%v B.Intersects(A)=%v, exact=%v", a.Kind, b.Kind, sc, ab, ba, want),
					pairCase(a, b, map[string]interface{}{"family": family, "index": ic.String(), "closed_a": closedA, "scale": sc, "a_intersects_b": ab, "b_intersects_a": ba, "want": want}))
			}
		})
	}
	c.Count(fmt.Sprintf("pairs_%s_%s", a.Kind, b.Kind))
	if want {
		c.Count(fmt.Sprintf("true_%s_%s", a.Kind, b.Kind))
	} else {
		c.Count(fmt.Sprintf("false_%s_%s", a.Kind, b.Kind))
	}
}

func boxesMeet(a, b *exact.Shape) bool {
	amn, amx := shapeBox(a)
	bmn, bmx := shapeBox(b)
	return !(amn.X > bmx.X || amx.X < bmn.X || amn.Y > bmx.Y || amx.Y < bmn.Y)
}

func c02Run(c *mon.Ctx) {
	o := pairOpts{corpusVariants: c.Pick(4, 8), halfLattice: c.Thorough(), large: c.Pick(300000, 5000000), random: c.Pick(2500000, 40000000)}
	item := 0
	sink := func(a, b *exact.Shape, family string, corpus, closedA bool, n int) {
		cfgs := baseIdx
		if !corpus {
			cfgs = idxFor(max(len(a.Ext), len(a.Pts)), n)
		}
		c02Judge(c, a, b, family, closedA, cfgs, !corpus || item%7 == 0, (corpus && item%3 == 0) || (!corpus && n%4 == 0))
		if boxesMeet(a, b) {
			c.NonTrivial(uint64(hashShape(hashShape(mon.NewH(), a), b)))
		}
		if !corpus && n%50000 == 17 && c.WantSample() {
			c.Sample(pairCase(a, b, map[string]interface{}{"family": family, "exact_intersects": exact.Intersects(a, b)}))
		}
	}
	corpusPairs(c, o, &item, sink)
	c.Count("corpus_done")
	randomPairs(c, o, &item, sink)
	largePairs(c, o, &item, sink)
	c.Count("large_done")
}

func c02Replay(kind string, raw json.RawMessage) (bool, string) {
	a, b, m, ok := parsePairCase(raw)
	if !ok {
		return false, "cannot decode case"
	}
	var closedA bool
	json.Unmarshal(m["closed_a"], &closedA)
	want := exact.Intersects(a, b)
	bad := false
	var out []string
	for _, ic := range baseIdx {
		la, lb := buildLib(a, ic, closedA), buildLib(b, ic, !closedA)
		ab, ba := gIntersects(la, lb), gIntersects(lb, la)
		oab, oba := la.obj.Intersects(lb.obj), lb.obj.Intersects(la.obj)
		if ab != want || ba != want || oab != want || oba != want {
			bad = true
		}
		out = append(out, fmt.Sprintf("%s: %v %v %v %v", ic, ab, ba, oab, oba))
	}
	return bad, fmt.Sprintf("exact=%v; %v", want, out)
}

func init() {
	must := []string{"corpus_done", "scaled_pairs"}
	for _, ka := range kinds4 {
		for _, kb := range kinds4 {
			must = append(must, fmt.Sprintf("pairs_%s_%s", ka, kb))
		}
	}
	mon.Register(&mon.Prop{
		ID:          "C02",
		Rule:        "fixed contact corpus: 16 rings (square .. spiral, star, sliver; 4 start/direction/closure variants quick, 8 thorough; as polygon and as hole of a frame) x every segment between lattice points of the box +-1 (half-integer lattice in thorough), every lattice point, rectangle and a family of triangles, under {no index, R-tree@1, quadtree@1}; random: contact-biased valid pairs of all 16 kind combinations with 0-3 holes, families placed relative to a hole (the hole itself, its vertices, edges, box, a polygon whose hole swallows it), shapes made from pieces of the other shape; geometry level in both operand orders, object level on all random and a seventh of the corpus pairs. Non-trivial = distinct pair whose bounding boxes meet.",
		Assumptions: []string{"valid shapes on the exact coordinate domain (simple rings, holes strictly inside and disjoint)", "oracle: internal/exact.Intersects (integer orientation tests; cross-checked against a big.Rat implementation and for symmetry on every call)"},
		Run:         c02Run,
		MustSee:     must,
		Replay:      c02Replay,
	})
}
