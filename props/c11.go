package props

import (
	"fmt"
	"math"
	"math/rand"
	"strings"

	"github.com/tidwall/geojson"
	"github.com/tidwall/geojson/geometry"

	"verif/internal/mon"
)

// C11: Rect, Center, Valid, Empty are exact functions of the coordinates.

type c11Case struct {
	Path   string      `json:"path"` // constructors | parse
	Object interface{} `json:"object"`
	Node   interface{} `json:"node_judged"`
	What   string      `json:"what"`
	Got    string      `json:"got"`
	Want   string      `json:"want"`
}

func posValid(p geometry.Point) bool {
	return p.X >= -180 && p.X <= 180 && p.Y >= -90 && p.Y <= 90
}

func boxOf(ps []geometry.Point) geometry.Rect {
	r := geometry.Rect{Min: ps[0], Max: ps[0]}
	for _, p := range ps[1:] {
		r.Min.X, r.Max.X = math.Min(r.Min.X, p.X), math.Max(r.Max.X, p.X)
		r.Min.Y, r.Max.Y = math.Min(r.Min.Y, p.Y), math.Max(r.Max.Y, p.Y)
	}
	return r
}

// extOnlyPositions: positions of non-empty parts with polygon holes left out.
func extOnlyPositions(n *Node, out []geometry.Point) []geometry.Point {
	if n.Empty() {
		return out
	}
	switch n.Kind {
	case "Polygon":
		return append(out, n.Rings[0]...)
	case "Rect":
		return append(out, n.Rings[0]...)
	}
	for _, r := range n.Rings {
		out = append(out, r...)
	}
	for _, c := range n.Children {
		out = extOnlyPositions(c, out)
	}
	return out
}

func hasHoleOutsideExterior(n *Node) bool {
	found := false
	n.Walk(func(m *Node) {
		if m.Kind == "Polygon" && !m.Empty() && len(m.Rings) > 1 {
			b := boxOf(m.Rings[0])
			for _, h := range m.Rings[1:] {
				for _, p := range h {
					if p.X < b.Min.X || p.X > b.Max.X || p.Y < b.Min.Y || p.Y > b.Max.Y {
						found = true
					}
				}
			}
		}
	})
	return found
}

// invalidOnlyIn classifies where the out-of-range positions of n are.
func invalidWhere(n *Node) (inNonEmptyNonHole, inEmptyPart, inHole bool) {
	var rec func(m *Node, emptyAncestor bool)
	rec = func(m *Node, emptyAncestor bool) {
		e := emptyAncestor || m.Empty()
		for ri, r := range m.Rings {
			for _, p := range r {
				if posValid(p) {
					continue
				}
				switch {
				case e:
					inEmptyPart = true
				case m.Kind == "Polygon" && ri > 0:
					inHole = true
				default:
					inNonEmptyNonHole = true
				}
			}
		}
		for _, c := range m.Children {
			rec(c, e)
		}
	}
	rec(n, false)
	return
}

// midpoint is the correctly rounded midpoint of two finite numbers.
func midpoint(a, b float64) float64 {
	if s := a + b; !math.IsInf(s, 0) {
		return s / 2
	}
	return a/2 + b/2
}

// nearMid: g is the midpoint w of [a,b] up to the rounding of a two-operation
// formula (relative to the larger bound, so a degenerate or subnormal box
// leaves no slack).
func nearMid(g, w, a, b float64) bool {
	if g == w {
		return true
	}
	if math.IsNaN(g) || math.IsInf(g, 0) || math.IsInf(w, 0) || a == b {
		return false
	}
	return math.Abs(g-w) <= 4.5e-16*math.Max(math.Abs(a), math.Abs(b))
}

func rectEq(a, b geometry.Rect) bool { return a.Min == b.Min && a.Max == b.Max }

func c11Judge(c *mon.Ctx, path string, root *Node, n *Node, o geojson.Object) {
	mk := func(what, got, want string) c11Case {
		return c11Case{Path: path, Object: root.Describe(), Node: n.Describe(), What: what, Got: got, Want: want}
	}
	c.Eval()
	c.Count("kind_" + n.Kind)
	// Empty
	we := n.Empty()
	if o.Empty() != we {
		c.Violation("empty", "Empty() differs from 'no part that occupies space'", mk("Empty", fmt.Sprint(o.Empty()), fmt.Sprint(we)))
	}
	if we {
		c.Count("empty_objects")
	}
	// Rect and Center of non-empty objects
	if !we {
		want := boxOf(n.Positions(true, nil))
		got := o.Rect()
		if !rectEq(got, want) {
			alt := boxOf(extOnlyPositions(n, nil))
			if rectEq(got, alt) && hasHoleOutsideExterior(n) {
				c.KnownOrViolation("F20", "rect", "Rect() ignores a hole position outside the exterior's box", mk("Rect", fmt.Sprint(got), fmt.Sprint(want)))
			} else {
				c.Violation("rect", "Rect() is not the tight box of the positions of the non-empty parts", mk("Rect", fmt.Sprint(got), fmt.Sprint(want)))
			}
		} else {
			wc := geometry.Point{X: midpoint(want.Min.X, want.Max.X), Y: midpoint(want.Min.Y, want.Max.Y)}
			exactly := false
			if n.Kind == "Point" || n.Kind == "SimplePoint" {
				wc, exactly = n.Rings[0][0], true
			}
			if gc := o.Center(); gc != wc {
				overflow := func(g, a, b float64) bool { return math.IsInf(a+b, 0) && math.IsInf(g, 0) && (g > 0) == (a+b > 0) }
				switch {
				case !exactly && (overflow(gc.X, want.Min.X, want.Max.X) || gc.X == wc.X) && (overflow(gc.Y, want.Min.Y, want.Max.Y) || gc.Y == wc.Y):
					c.KnownOrViolation("F27", "center", "Center() is infinite: min+max of the box overflows float64 although the midpoint is finite", mk("Center", fmt.Sprint(gc), fmt.Sprint(wc)))
				case !exactly && nearMid(gc.X, wc.X, want.Min.X, want.Max.X) && nearMid(gc.Y, wc.Y, want.Min.Y, want.Max.Y):
					// another correctly derived midpoint formula (min+(max-min)/2 ...) may differ in the last bits
					c.Count("center_within_rounding")
				default:
					c.Violation("center", "Center() is not the midpoint of the box", mk("Center", fmt.Sprint(gc), fmt.Sprint(wc)))
				}
			}
		}
	}
	// Valid
	wv := true
	for _, p := range n.Positions(false, nil) {
		if !posValid(p) {
			wv = false
			break
		}
	}
	if !wv {
		c.Count("invalid_objects")
	}
	if gv := o.Valid(); gv != wv {
		cs := mk("Valid", fmt.Sprint(gv), fmt.Sprint(wv))
		ne, em, hole := invalidWhere(n)
		switch {
		case gv && !wv && !ne && (hole || em) && n.IsCollection2():
			if hole {
				c.KnownOrViolation("F20", "valid", "collection validity is taken from the union rectangle, which ignores hole positions outside the exterior's box", cs)
			}
			if em {
				c.KnownOrViolation("F21", "valid", "collection validity skips empty children that still carry positions", cs)
			}
		default:
			c.Violation("valid", "Valid() differs from 'every position within [-180,180]x[-90,90]'", cs)
		}
	}
	if n.Kind == "LineString" || n.Kind == "Polygon" {
		c11Moved(c, path, root, n, o)
	}
}

// c11Moved: after the source object has answered Rect/Center/Valid/Empty, a line string or polygon is translated by
// the library (Base().Move) so that positions enter or leave the valid range, wrapped again, and judged like any other
// object against the translated model (added after seeded change C11-p: a validity answer cached on first use and
// carried over to the moved copy).
func c11Moved(c *mon.Ctx, path string, root *Node, n *Node, o geojson.Object) {
	if strings.HasSuffix(path, "/moved") {
		return
	}
	k := len(n.Positions(false, nil)) + len(path)
	dx := []float64{360, -360, 15.5, 0, -170.25}[k%5]
	dy := []float64{0, 180, -7.25, -95}[(k/5)%4]
	f := func(p geometry.Point) geometry.Point { return geometry.Point{X: p.X + dx, Y: p.Y + dy} }
	var mo geojson.Object
	switch v := o.(type) {
	case *geojson.LineString:
		mo = geojson.NewLineString(v.Base().Move(dx, dy))
	case *geojson.Polygon:
		mo = geojson.NewPolygon(v.Base().Move(dx, dy))
	default:
		return
	}
	mn := mapNode(n, f)
	c.Count("moved_objects")
	c11Judge(c, path+"/moved", mn, mn, mo)
}

// IsCollection2: kinds whose Valid() is derived from the union rectangle
// (directly or through a Feature).
func (n *Node) IsCollection2() bool {
	switch n.Kind {
	case "MultiPoint", "GeometryCollection", "FeatureCollection":
		return true
	case "Feature":
		return n.Children[0].IsCollection2()
	case "MultiLineString", "MultiPolygon":
		// these validate child by child, but a child's own answer can still be rectangle-derived
		return false
	}
	return false
}

// c11Tree judges the root and every nested object.
func c11Tree(c *mon.Ctx, path string, root *Node, o geojson.Object) {
	var rec func(n *Node, o geojson.Object)
	rec = func(n *Node, o geojson.Object) {
		c11Judge(c, path, root, n, o)
		switch v := o.(type) {
		case *geojson.Feature:
			if len(n.Children) == 1 {
				rec(n.Children[0], v.Base())
			}
		case geojson.Collection:
			ch := v.Children()
			if len(ch) != len(n.Children) {
				c.Violation("children", "number of children differs", c11Case{Path: path, Object: root.Describe(), What: "Children", Got: fmt.Sprint(len(ch)), Want: fmt.Sprint(len(n.Children))})
				return
			}
			for i := range ch {
				rec(n.Children[i], ch[i])
			}
		}
	}
	rec(root, o)
}

var c11Specials = []float64{0, math.Copysign(0, -1), 1, -1, 180, -180, 90, -90,
	math.Nextafter(180, 181), math.Nextafter(180, 0), math.Nextafter(-180, -181), math.Nextafter(-180, 0),
	math.Nextafter(90, 91), math.Nextafter(90, 0), math.Nextafter(-90, -91), math.Nextafter(-90, 0),
	1e308, -1e308, math.MaxFloat64, -math.MaxFloat64, math.SmallestNonzeroFloat64, -math.SmallestNonzeroFloat64, 179.99999999999997, 1e-300}

func c11Coord(mode int) CoordGen {
	return func(r *rand.Rand) geometry.Point {
		one := func(lim float64) float64 {
			switch mode {
			case 0: // in range
				if r.Intn(4) == 0 {
					return float64(r.Intn(int(2*lim)+1)) - lim
				}
				return (r.Float64()*2 - 1) * lim
			case 1: // small lattice: many ties
				return float64(r.Intn(5) - 2)
			case 2: // specials mixed with in-range values
				if r.Intn(3) == 0 {
					return c11Specials[r.Intn(len(c11Specials))]
				}
				return (r.Float64()*2 - 1) * lim
			default: // mostly valid, occasionally just outside
				v := (r.Float64()*2 - 1) * lim
				if r.Intn(12) == 0 {
					v = math.Copysign(lim+r.Float64()*30+1e-9, v)
				}
				return v
			}
		}
		return geometry.Point{X: one(180), Y: one(90)}
	}
}

func c11Run(c *mon.Ctx) {
	item := 0
	// exhaustive: every position sequence of length 1..5 over a 3x3 value grid,
	// as LineString, Polygon ring (as given and closed), MultiPoint, and as the
	// single child of a collection
	vals := []float64{-1, 0, 2}
	maxL := c.Pick(4, 5)
	for L := 1; L <= maxL; L++ {
		total := 1
		for i := 0; i < L; i++ {
			total *= 9
		}
		for code := 0; code < total; code++ {
			item++
			if !c.Mine(item) {
				continue
			}
			ps := make([]geometry.Point, L)
			v := code
			for i := range ps {
				d := v % 9
				v /= 9
				ps[i] = geometry.Point{X: vals[d/3], Y: vals[d%3] * 3}
			}
			c.SetCase(func() interface{} { return map[string]interface{}{"positions": ps} })
			c.Try(func() {
				var mp []*Node
				for _, p := range ps {
					mp = append(mp, nPoint(p))
				}
				nodes := []*Node{nLine(ps), nPoly(ps), nPoly(append(append([]geometry.Point{}, ps...), ps[0])), nMulti("MultiPoint", mp...),
					nMulti("GeometryCollection", nLine(ps)), nMulti("MultiLineString", nLine(ps)), nFeature(nPoly(ps)), nMulti("FeatureCollection", nFeature(nLine(ps)), nPoint(ps[0]))}
				for _, n := range nodes {
					c11Tree(c, "constructors", n, n.Build(nil))
				}
				// the closed ring as a document, parsed under the representation options
				if L >= 3 {
					ring := nPoly(append(append([]geometry.Point{}, ps...), ps[0]))
					for oi, po := range []geojson.ParseOptions{{AllowRects: true, IndexGeometry: 64, IndexChildren: 64}, {AllowRects: true, AllowSimplePoints: true, IndexGeometry: 1, IndexGeometryKind: geometry.RTree}} {
						for _, n := range []*Node{ring, nFeature(ring), nMulti("GeometryCollection", ring, nPoint(ps[0]))} {
							po := po
							obj, err := geojson.Parse(n.JSON(), &po)
							if err != nil {
								continue
							}
							c.Count("parsed_under_representation_options")
							c11Tree(c, fmt.Sprintf("parse(AllowRects, set %d)", oi), n, obj)
						}
					}
				}
				c.NonTrivial(uint64(mon.NewH().I(int64(L)).I(int64(code))))
			})
			if code%7001 == 3 && c.WantSample() {
				c.Sample(map[string]interface{}{"kind": "exhaustive-sequence", "positions": ps, "built_as": "LineString, Polygon (open/closed), MultiPoint, single-child collections, Feature"})
			}
		}
	}
	c.Count("exhaustive_done")
	// flat series (all positions share x or y) around the index threshold, under every index kind
	for fi, nflat := range []int{10, 63, 64, 65, 100, 300} {
		for vi := 0; vi < 4; vi++ {
			item++
			if !c.Mine(item) {
				continue
			}
			ps := make([]geometry.Point, nflat)
			for k := range ps {
				switch vi {
				case 0:
					ps[k] = geometry.Point{X: 170, Y: -70 + 140*float64(k)/float64(nflat-1)}
				case 1:
					ps[k] = geometry.Point{X: -30 + float64(k%7), Y: 12.5}
				case 2:
					ps[k] = geometry.Point{X: 0, Y: float64(k%5) - 2}
				default:
					ps[k] = geometry.Point{X: -179.5 + float64(k)*0.001, Y: -89}
				}
			}
			c.SetCase(func() interface{} { return map[string]interface{}{"flat_series": fi, "variant": vi, "n": nflat} })
			c.Try(func() {
				line := nLine(ps)
				ring := nPoly(append(append([]geometry.Point{}, ps...), ps[0]))
				for _, n := range []*Node{line, ring, nFeature(line), nMulti("GeometryCollection", line, nPoint(ps[0])), nMulti("MultiLineString", line)} {
					for _, ic := range []*geometry.IndexOptions{nil, {Kind: geometry.QuadTree, MinPoints: 1}, {Kind: geometry.RTree, MinPoints: 1}, {Kind: geometry.None}} {
						c11Tree(c, "constructors(flat series)", n, n.Build(ic))
					}
					if n.Parseable() {
						for _, po := range []*geojson.ParseOptions{nil, {IndexGeometry: 1, IndexGeometryKind: geometry.RTree, IndexChildren: 1}, {IndexGeometry: 0}} {
							if obj, err := geojson.Parse(n.JSON(), po); err == nil {
								c11Tree(c, "parse(flat series)", n, obj)
							}
						}
					}
				}
				c.Count("flat_series")
			})
		}
	}
	c11Circles(c, &item)
	// random trees of every kind
	n := c.Pick(3000000, 60000000)
	for i := 0; i < n; i++ {
		item++
		if !c.Mine(item) {
			continue
		}
		r := c.SubRng("tree", i)
		o := &TreeOpts{Coord: c11Coord(i % 4), MaxDepth: 1 + r.Intn(3), MaxKids: 1 + r.Intn(5), MaxPts: 2 + r.Intn(7), Empties: i%3 != 0}
		if i%50 == 0 {
			o.MaxPts = 200
		}
		root := randTree(r, o, 0)
		c.SetCase(func() interface{} { return map[string]interface{}{"object": root.Describe()} })
		c.Try(func() {
			var ic *geometry.IndexOptions
			if i%5 == 0 {
				ic = &geometry.IndexOptions{Kind: geometry.RTree, MinPoints: 1}
			}
			c11Tree(c, "constructors", root, root.Build(ic))
			if root.Parseable() {
				root.DecorateBBoxes(r)
				txt := root.JSON()
				var po *geojson.ParseOptions
				if i%3 == 1 {
					po = &geojson.ParseOptions{AllowRects: true, AllowSimplePoints: i%2 == 0, IndexGeometry: 64, IndexChildren: 1 + i%64, IndexGeometryKind: geometry.IndexKind(i % 3)}
				}
				obj, err := geojson.Parse(txt, po)
				if err != nil {
					c.Violation("parse", "model text rejected: "+err.Error(), map[string]interface{}{"text": txt})
					return
				}
				c.Count("parsed_objects")
				c11Tree(c, "parse", root, obj)
			}
			h := mon.NewH().S(root.Kind)
			for _, p := range root.Positions(false, nil) {
				h = h.U(math.Float64bits(p.X)).U(math.Float64bits(p.Y))
			}
			if len(root.Positions(true, nil)) > 1 {
				c.NonTrivial(uint64(h))
			}
		})
		if i < 64 && i%16 == c.Shard && c.WantSample() {
			c.Sample(root.Describe())
		}
	}
}

// c11Circles: a Circle's rectangle and validity are those of the positions of
// its polygon approximation (what Rect() bounds); Empty() is false.
func c11Circles(c *mon.Ctx, item *int) {
	n := c.Pick(60000, 1500000)
	for i := 0; i < n; i++ {
		*item++
		if !c.Mine(*item) {
			continue
		}
		r := c.SubRng("circle", i)
		ctr := geometry.Point{X: r.Float64()*360 - 180, Y: r.Float64()*180 - 90}
		switch r.Intn(5) {
		case 0: // next to the antimeridian
			ctr.X = []float64{179.5, -179.5, 180, -180, 179.99}[r.Intn(5)]
		case 1: // next to a pole
			ctr.Y = []float64{89.5, -89.5, 90, -90, 89.999}[r.Intn(5)]
		}
		m := math.Pow(10, r.Float64()*7.3)
		if r.Intn(12) == 0 {
			m = []float64{0, -5, 1e-3, 2.1e7}[r.Intn(4)]
		}
		steps := []int{0, 3, 4, 8, 64, 65, 360}[r.Intn(7)]
		c.SetCase(func() interface{} {
			return map[string]interface{}{"circle_centre": []float64{ctr.X, ctr.Y}, "meters": m, "steps": steps}
		})
		c.Try(func() {
			circ := geojson.NewCircle(ctr, m, steps)
			poly, ok := circ.Polygon().(*geojson.Polygon)
			if !ok || poly.Base() == nil || poly.Base().Exterior == nil {
				c.Violation("circle-polygon", "Circle.Polygon() is not a polygon with an exterior", map[string]interface{}{"circle_centre": []float64{ctr.X, ctr.Y}, "meters": m, "steps": steps})
				return
			}
			ext := poly.Base().Exterior
			var ps []geometry.Point
			for k := 0; k < ext.NumPoints(); k++ {
				ps = append(ps, ext.PointAt(k))
			}
			valid := true
			for _, q := range ps {
				if !posValid(q) {
					valid = false
				}
			}
			c.Eval()
			c.Count("circles_judged")
			if !valid {
				c.Count("circles_with_out_of_range_positions")
			}
			mk := func(what, got, want string) c11Case {
				return c11Case{Path: "constructors", Object: map[string]interface{}{"circle_centre": []float64{ctr.X, ctr.Y}, "meters": m, "steps": steps}, What: what, Got: got, Want: want}
			}
			if len(ps) > 0 {
				if got, want := circ.Rect(), boxOf(ps); !rectEq(got, want) {
					c.Violation("circle-rect", "Circle.Rect() is not the bounding box of the positions of its polygon", mk("Rect", fmt.Sprint(got), fmt.Sprint(want)))
				}
			}
			if got := circ.Valid(); got != valid {
				c.Violation("circle-valid", "Circle.Valid() disagrees with the range test over the positions of its polygon", mk("Valid", fmt.Sprint(got), fmt.Sprint(valid)))
			}
			if circ.Empty() {
				c.Violation("circle-empty", "Circle.Empty() is true", mk("Empty", "true", "false"))
			}
			if i%97 == 0 {
				c.NonTrivial(uint64(mon.NewH().S("circle").U(math.Float64bits(ctr.X)).U(math.Float64bits(ctr.Y)).U(math.Float64bits(m))))
			}
		})
	}
}

func init() {
	must := []string{"circles_judged", "circles_with_out_of_range_positions", "flat_series", "parsed_under_representation_options", "exhaustive_done", "parsed_objects", "empty_objects", "invalid_objects"}
	for _, k := range allKinds {
		must = append(must, "kind_"+k)
	}
	mon.Register(&mon.Prop{
		ID:          "C11",
		Rule:        "exhaustive: every position sequence of length 1..4 (thorough 5) over a 3x3 value grid, built as LineString, Polygon ring (as given / closed), MultiPoint, single-child collections and Feature; random: object trees of all kinds (depth<=3, empties mixed in, 1..200 positions) with coordinates from {in-range, tie-rich lattice, special values: -0, +-180/+-90 +-1ulp, +-1e308, +-MaxFloat64, subnormal; occasionally just out of range}, built through the constructors and, when the text is parseable, through Parse; every nested object is judged too. Non-trivial = distinct object with at least two positions in non-empty parts.",
		Assumptions: []string{"finite coordinates only", "a Circle is judged against the positions of its polygon approximation (what Rect() bounds): rectangle and validity only, its centre is covered by C13", "known findings F20 (hole outside the exterior's box) and F21 (empty child carrying positions) are matched by narrow predicates"},
		Run:         c11Run,
		MustSee:     must,
	})
}
