package sphere

import (
	"math"
	"math/rand"
	"testing"
)

func TestResidual(t *testing.T) {
	r := rand.New(rand.NewSource(1))
	worst := 0.0
	for i := 0; i < 3000; i++ {
		la, lo := r.Float64()*180-90, r.Float64()*360-180
		lb, lp := r.Float64()*180-90, r.Float64()*360-180
		if i%3 == 0 {
			lb, lp = la+r.NormFloat64()*1e-5, lo+r.NormFloat64()*1e-5
		}
		if i%7 == 0 {
			lb, lp = -la+r.NormFloat64()*1e-6, lo+180
		}
		d := Dist(la, lo, lb, lp)
		res := Residual(la, lo, lb, lp, d)
		if res > worst {
			worst = res
		}
		// destination / bearing consistency of the reference itself
		b := Bearing(la, lo, lb, lp)
		if d > 1 && d < math.Pi*R-1000 && math.Abs(la) < 89.9 {
			x, y := Dest(la, lo, d, b)
			if e := Dist(x, y, lb, lp); e > 1e-6 {
				t.Fatalf("dest/bearing inconsistent: %v m at %v %v %v %v", e, la, lo, lb, lp)
			}
		}
	}
	t.Logf("worst residual %.3g rad = %.3g m", worst, worst*R)
	if worst*R > 1e-7 {
		t.Fatalf("reference distance error %.3g m", worst*R)
	}
}
