#!/bin/bash
# usage: tools/intake.sh <Cxx> <letter> <round> [extra check ids...]   (development aid)
# takes a change a sub-agent left in $SEEDSRC/<Cxx>/<letter> (default /tmp/seedsafe), files it as seeded/<Cxx>-<letter>, confirms it in a
# scratch worktree of its own (/tmp/vint-<Cxx>-<letter>: suite passes with it, demonstration fails with it and passes
# without it), runs the property's own quick check (and any extra ones) against that scratch worktree through
# VERIF_REPO, records the first-pass outcome in meta.json and removes the worktree.  /repo is never touched;
# tools/seedfinal.sh is the recording pass against /repo itself.
export GOFLAGS=-mod=mod GOPROXY=off GOSUMDB=off GOTOOLCHAIN=local
cd "$(dirname "$0")/.."
P=$1; L=$2; R=$3; shift 3
SRC=${SEEDSRC:-/tmp/seedsafe}/$P/$L
SD=$PWD/seeded/$P-$L
[ -f $SRC/patch.diff ] || { echo "$P-$L: no patch.diff in $SRC"; exit 3; }
mkdir -p $SD
cp $SRC/patch.diff $SRC/meta.json $SRC/DEMO_LOCATION.txt $SD/ 2>/dev/null
for f in $SRC/demo_*_test.go*; do b=$(basename $f); cp $f $SD/${b%.txt}.txt; done
W=/tmp/vint-$P-$L
git -C /repo worktree add -q --detach $W HEAD || exit 3
LOC=$(tr -d ' \n' < $SD/DEMO_LOCATION.txt); [ -z "$LOC" ] && LOC=.
RACE=""; grep -qi -- "-race" $SD/meta.json && RACE="-race"
fin() { git -C /repo worktree remove --force $W; }
git -C $W apply $SD/patch.diff || { echo "$P-$L: patch does not apply"; fin; exit 3; }
( cd $W && go build ./... ) || { echo "$P-$L: does not build"; fin; exit 3; }
SUITE=$(cd $W && timeout 1500 go test -vet=off -count=1 ./... 2>&1 | grep -E "^(FAIL|ok|---)" | grep -c "^FAIL")
for f in $SD/demo_*_test.go.txt; do b=$(basename $f); cp $f $W/$LOC/${b%.txt}; done
DEMO_WITH=$(cd $W && timeout 600 go test $RACE -vet=off -count=1 -run TestDemo ./$LOC 2>&1 | grep -E "^(FAIL|ok)" | head -1 | cut -c1-4)
git -C $W apply -R $SD/patch.diff
DEMO_WITHOUT=$(cd $W && timeout 600 go test $RACE -vet=off -count=1 -run TestDemo ./$LOC 2>&1 | grep -E "^(FAIL|ok)" | head -1 | cut -c1-4)
git -C $W checkout -q -- . ; git -C $W clean -fdq
echo "$P-$L CONFIRM suite_failures_with_patch=$SUITE demo_with_patch=[$DEMO_WITH] demo_without_patch=[$DEMO_WITHOUT]"
git -C $W apply $SD/patch.diff
RES=""
for id in $P "$@"; do
  OUT=$(VERIF_REPO=$W ./check.sh $id quick 2>&1); RC=$?
  RES="$RES $id:$RC"
  echo "$P-$L CHECK(scratch) $id exit=$RC $(echo "$OUT" | grep -c '^VIOLATION') violation lines; $(echo "$OUT" | tail -1 | cut -c1-150)"
  echo "$OUT" | grep '^VIOLATION' | head -2 | cut -c1-220
done
fin
python3 - "$SD" "$R" "$SUITE" "$DEMO_WITH" "$DEMO_WITHOUT" $RES <<'PY'
import json,sys
sd,rnd,suite,dw,dwo=sys.argv[1:6]; p=sd+'/meta.json'; m=json.load(open(p))
m['round']=int(rnd)
m['confirmed_by_me']={'how':'tools/intake.sh in a scratch worktree of /repo under /tmp (removed afterwards)',
  'suite_passes_with_patch': suite=='0','demo_fails_with_patch': dw.startswith('FAIL'),'demo_passes_without_patch': dwo.startswith('ok')}
fp=m.get('first_pass_before_strengthening',{})
for r in sys.argv[6:]:
    i,rc=r.split(':')
    fp.setdefault(i, 'reported' if rc=='1' else 'silent' if rc=='0' else 'harness error')
m['first_pass_before_strengthening']=fp
m['what_i_ran']='git -C /repo apply seeded/<id>/patch.diff; ./check.sh <ID> quick for the ids below; git -C /repo checkout -- .'
m.setdefault('quick_checks_that_report_it',[]); m.setdefault('quick_checks_run_that_stay_silent',[])
json.dump(m,open(p,'w'),indent=1)
PY
