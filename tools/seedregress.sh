#!/bin/bash
# usage: tools/seedregress.sh [seed ids...]   -- final regression over the kept seeded changes with the final harness:
# for each one apply it to /repo, run its primary detecting quick check (the check of its own property when that is among
# the recorded detecting checks, else the first recorded one), undo it, and record the outcome in meta.json (final_regression).
cd "$(dirname "$0")/.."
SEEDS="$@"; [ -z "$SEEDS" ] && SEEDS=$(ls seeded | grep '^C')
HC=$(git rev-parse --short HEAD)
FAIL=0
for s in $SEEDS; do
  ID=$(python3 -c "
import json
m=json.load(open('seeded/$s/meta.json')); d=m['quick_checks_that_report_it']; own='$s'[:3]
print(own if own in d else (d[0] if d else own))")
  [ -n "$(git -C /repo status --short)" ] && { echo "/repo not clean"; exit 3; }
  git -C /repo apply "$PWD/seeded/$s/patch.diff" || { echo "$s: patch does not apply"; FAIL=$((FAIL+1)); continue; }
  ./check.sh $ID quick >/tmp/seedregress.out 2>&1; RC=$?
  git -C /repo checkout -- .
  python3 - "$s" "$HC" "$ID" "$RC" <<'PY'
import json,sys
s,hc,cid,rc=sys.argv[1:5]; p=f'seeded/{s}/meta.json'; m=json.load(open(p))
m['final_regression']={'harness_commit':hc,'check':cid,'exit':int(rc),'how':'tools/seedregress.sh: git -C /repo apply patch.diff; ./check.sh <ID> quick; git -C /repo checkout -- .'}
json.dump(m,open(p,'w'),indent=1)
PY
  echo "$s -> $ID:$RC"
  [ "$RC" != "1" ] && FAIL=$((FAIL+1))
done
echo "REGRESSION-DONE not-reported=$FAIL"
git -C /repo status --short | head -3
