// Package exact is the exact planar oracle used by the monitors.  It does not
// import the library under test.  Coordinates are integers: the harness feeds
// it float64 coordinates that are multiples of 1/Scale with magnitude at most
// 2^22, multiplied by Scale.  All predicates on input points are decided in
// int64 (|coordinate| <= 2^26, so every cross product is below 2^55); points
// that arise as intersections are rationals held in math/big integers.
package exact

import (
	"math"
	"math/big"
	"sort"
)

// Scale is the fixed denominator of the coordinate lattice.
const Scale = 16

// MaxCoord bounds |coordinate|*Scale.
const MaxCoord = 1 << 26

// P is a lattice point (real coordinate = X/Scale, Y/Scale).
type P struct{ X, Y int64 }

// FromFloat converts a library coordinate pair; ok is false when the pair is
// outside the exact domain.
func FromFloat(x, y float64) (P, bool) {
	sx, sy := x*Scale, y*Scale
	if sx != math.Trunc(sx) || sy != math.Trunc(sy) ||
		math.Abs(sx) > MaxCoord || math.Abs(sy) > MaxCoord {
		return P{}, false
	}
	return P{int64(sx), int64(sy)}, true
}

// Float returns the library coordinates of p.
func (p P) Float() (float64, float64) {
	return float64(p.X) / Scale, float64(p.Y) / Scale
}

func sign(v int64) int {
	switch {
	case v < 0:
		return -1
	case v > 0:
		return 1
	}
	return 0
}

// Orient is the sign of (b-a)x(c-a): +1 when c is to the left of a->b.
func Orient(a, b, c P) int {
	return sign((b.X-a.X)*(c.Y-a.Y) - (b.Y-a.Y)*(c.X-a.X))
}

func between(a, b, v int64) bool {
	if a > b {
		a, b = b, a
	}
	return a <= v && v <= b
}

// OnSeg reports whether p lies on the closed segment ab (a may equal b).
func OnSeg(a, b, p P) bool {
	return Orient(a, b, p) == 0 && between(a.X, b.X, p.X) && between(a.Y, b.Y, p.Y)
}

// Seg is a closed segment.
type Seg struct{ A, B P }

// SegSeg reports whether two closed segments share a point.
func SegSeg(s, t Seg) bool {
	a, b, c, d := s.A, s.B, t.A, t.B
	d1, d2 := Orient(a, b, c), Orient(a, b, d)
	d3, d4 := Orient(c, d, a), Orient(c, d, b)
	if d1*d2 < 0 && d3*d4 < 0 {
		return true
	}
	return OnSeg(a, b, c) || OnSeg(a, b, d) || OnSeg(c, d, a) || OnSeg(c, d, b)
}

// SegContainsSeg: every point of t lies on s.
func SegContainsSeg(s, t Seg) bool {
	return OnSeg(s.A, s.B, t.A) && OnSeg(s.A, s.B, t.B)
}

// Collinear: p on the infinite line through s (every point when s is
// degenerate).
func Collinear(s Seg, p P) bool { return Orient(s.A, s.B, p) == 0 }

// RayIn is the half-open crossing rule for the rightward horizontal ray from
// p and the segment ab, for p not on the segment: an endpoint level with p
// counts as below it; a crossing is counted iff exactly one endpoint is below
// (or level) and p is strictly left of the edge at its level.
func RayIn(a, b, p P) bool {
	ab := a.Y <= p.Y
	bb := b.Y <= p.Y
	if ab == bb {
		return false
	}
	c := Orient(a, b, p)
	return (ab && c > 0) || (!ab && c < 0)
}

// Locate classifies p against the closed curve made of segs by crossing
// parity: +1 inside (odd), 0 on some segment, -1 outside.
func Locate(segs []Seg, p P) int {
	in := false
	for _, s := range segs {
		if OnSeg(s.A, s.B, p) {
			return 0
		}
		if RayIn(s.A, s.B, p) {
			in = !in
		}
	}
	if in {
		return 1
	}
	return -1
}

// Ring is a cyclic vertex sequence without a repeated closing vertex.
type Ring []P

// Segs returns the cyclic edges.
func (r Ring) Segs() []Seg {
	n := len(r)
	s := make([]Seg, 0, n)
	for i := 0; i < n; i++ {
		s = append(s, Seg{r[i], r[(i+1)%n]})
	}
	return s
}

// Pip: +1 strictly inside, 0 boundary, -1 outside.
func (r Ring) Pip(p P) int { return Locate(r.Segs(), p) }

// Area2 is twice the signed area (positive = counter-clockwise).
func (r Ring) Area2() int64 {
	var s int64
	n := len(r)
	for i := 0; i < n; i++ {
		a, b := r[i], r[(i+1)%n]
		s += a.X*b.Y - a.Y*b.X
	}
	return s
}

// Simple: at least 3 vertices, no zero-length edge, non-adjacent edges
// disjoint, adjacent edges share only their common vertex, non-zero area.
func (r Ring) Simple() bool {
	n := len(r)
	if n < 3 {
		return false
	}
	s := r.Segs()
	for i := 0; i < n; i++ {
		if s[i].A == s[i].B {
			return false
		}
	}
	for i := 0; i < n; i++ {
		for j := i + 1; j < n; j++ {
			adj := j == i+1 || (i == 0 && j == n-1)
			if !adj {
				if SegSeg(s[i], s[j]) {
					return false
				}
				continue
			}
			var shared, o1, o2 P
			if j == i+1 {
				shared, o1, o2 = s[i].B, s[i].A, s[j].B
			} else {
				shared, o1, o2 = s[i].A, s[i].B, s[j].A
			}
			if n == 3 {
				// in a triangle every pair is adjacent on both sides; a
				// degenerate one is caught by the area test
				continue
			}
			if OnSeg(shared, o1, o2) || OnSeg(shared, o2, o1) {
				return false
			}
		}
	}
	return r.Area2() != 0
}

// Kind of a shape.
type Kind int

// Shape kinds.
const (
	KPoint Kind = iota
	KRect
	KLine
	KPoly
)

func (k Kind) String() string { return [...]string{"point", "rect", "line", "poly"}[k] }

// Shape is a closed planar point set.
type Shape struct {
	Kind  Kind
	Pts   []P    // point: [p]; rect: [min,max]; line: vertices
	Ext   Ring   // poly
	Holes []Ring // poly
}

// Skeleton: the segments whose union is the shape's boundary (or the shape
// itself when it has no interior).
func (s *Shape) Skeleton() []Seg {
	switch s.Kind {
	case KPoint:
		return []Seg{{s.Pts[0], s.Pts[0]}}
	case KRect:
		mn, mx := s.Pts[0], s.Pts[1]
		return Ring{{mn.X, mn.Y}, {mx.X, mn.Y}, {mx.X, mx.Y}, {mn.X, mx.Y}}.Segs()
	case KLine:
		out := make([]Seg, 0, len(s.Pts))
		for i := 0; i+1 < len(s.Pts); i++ {
			out = append(out, Seg{s.Pts[i], s.Pts[i+1]})
		}
		return out
	}
	out := s.Ext.Segs()
	for _, h := range s.Holes {
		out = append(out, h.Segs()...)
	}
	return out
}

func (s *Shape) reps() []P {
	if s.Kind != KPoly {
		return []P{s.Pts[0]}
	}
	out := []P{s.Ext[0]}
	for _, h := range s.Holes {
		out = append(out, h[0])
	}
	return out
}

// HasInterior: the set has non-empty planar interior.
func (s *Shape) HasInterior() bool {
	switch s.Kind {
	case KRect:
		return s.Pts[0].X != s.Pts[1].X && s.Pts[0].Y != s.Pts[1].Y
	case KPoly:
		return true
	}
	return false
}

// In: p belongs to the closed set.
func (s *Shape) In(p P) bool {
	switch s.Kind {
	case KPoint:
		return s.Pts[0] == p
	case KRect:
		return between(s.Pts[0].X, s.Pts[1].X, p.X) && between(s.Pts[0].Y, s.Pts[1].Y, p.Y)
	case KLine:
		for i := 0; i+1 < len(s.Pts); i++ {
			if OnSeg(s.Pts[i], s.Pts[i+1], p) {
				return true
			}
		}
		return false
	}
	if s.Ext.Pip(p) < 0 {
		return false
	}
	for _, h := range s.Holes {
		if h.Pip(p) > 0 {
			return false
		}
	}
	return true
}

// Intersects: the two closed sets share a point (valid shapes).
func Intersects(a, b *Shape) bool {
	sa, sb := a.Skeleton(), b.Skeleton()
	for _, x := range sa {
		for _, y := range sb {
			if SegSeg(x, y) {
				return true
			}
		}
	}
	for _, p := range a.reps() {
		if b.In(p) {
			return true
		}
	}
	for _, p := range b.reps() {
		if a.In(p) {
			return true
		}
	}
	return false
}

// ---- rational points ----

// Q is a rational point (X/D, Y/D), D > 0.
type Q struct{ X, Y, D *big.Int }

func bi(v int64) *big.Int { return big.NewInt(v) }

// frac is a parameter n/d along a segment, d > 0.
type frac struct{ n, d int64 }

func fracLess(a, b frac) bool {
	// a.n/a.d < b.n/b.d with positive denominators; products need 128 bits
	l := new(big.Int).Mul(bi(a.n), bi(b.d))
	r := new(big.Int).Mul(bi(b.n), bi(a.d))
	return l.Cmp(r) < 0
}

func fracEq(a, b frac) bool {
	l := new(big.Int).Mul(bi(a.n), bi(b.d))
	r := new(big.Int).Mul(bi(b.n), bi(a.d))
	return l.Cmp(r) == 0
}

// at returns p + t(q-p) for t = n/d given as big ints.
func at(p, q P, n, d *big.Int) Q {
	x := new(big.Int).Mul(bi(p.X), d)
	x.Add(x, new(big.Int).Mul(n, bi(q.X-p.X)))
	y := new(big.Int).Mul(bi(p.Y), d)
	y.Add(y, new(big.Int).Mul(n, bi(q.Y-p.Y)))
	return Q{x, y, new(big.Int).Set(d)}
}

// orientQ is the sign of (b-a)x(r-a) for rational r.
func orientQ(a, b P, r Q) int {
	// (bx-ax)*(ry - ay) - (by-ay)*(rx-ax), times D
	t1 := new(big.Int).Mul(bi(a.Y), r.D)
	t1.Sub(r.Y, t1)
	t1.Mul(t1, bi(b.X-a.X))
	t2 := new(big.Int).Mul(bi(a.X), r.D)
	t2.Sub(r.X, t2)
	t2.Mul(t2, bi(b.Y-a.Y))
	return t1.Cmp(t2)
}

// cmpQ compares coordinate v (integer) with rational num/D: sign(v - num/D).
func cmpQ(v int64, num, d *big.Int) int {
	l := new(big.Int).Mul(bi(v), d)
	return l.Cmp(num)
}

func betweenQ(a, b int64, num, d *big.Int) bool {
	if a > b {
		a, b = b, a
	}
	return cmpQ(a, num, d) <= 0 && cmpQ(b, num, d) >= 0
}

func onSegQ(a, b P, r Q) bool {
	return orientQ(a, b, r) == 0 && betweenQ(a.X, b.X, r.X, r.D) && betweenQ(a.Y, b.Y, r.Y, r.D)
}

// locateQ is Locate for a rational point.
func locateQ(segs []Seg, r Q) int {
	in := false
	for _, s := range segs {
		if onSegQ(s.A, s.B, r) {
			return 0
		}
		ab := cmpQ(s.A.Y, r.Y, r.D) <= 0
		bb := cmpQ(s.B.Y, r.Y, r.D) <= 0
		if ab != bb {
			c := orientQ(s.A, s.B, r)
			if (ab && c > 0) || (!ab && c < 0) {
				in = !in
			}
		}
	}
	if in {
		return 1
	}
	return -1
}

// InQ: rational point belongs to the closed set.
func (s *Shape) InQ(r Q) bool {
	switch s.Kind {
	case KPoint:
		return cmpQ(s.Pts[0].X, r.X, r.D) == 0 && cmpQ(s.Pts[0].Y, r.Y, r.D) == 0
	case KRect:
		return betweenQ(s.Pts[0].X, s.Pts[1].X, r.X, r.D) && betweenQ(s.Pts[0].Y, s.Pts[1].Y, r.Y, r.D)
	case KLine:
		for i := 0; i+1 < len(s.Pts); i++ {
			if onSegQ(s.Pts[i], s.Pts[i+1], r) {
				return true
			}
		}
		return false
	}
	if locateQ(s.Ext.Segs(), r) < 0 {
		return false
	}
	for _, h := range s.Holes {
		if locateQ(h.Segs(), r) > 0 {
			return false
		}
	}
	return true
}

// cuts appends the parameters (along pq, p != q) at which segment ab meets pq.
func cuts(p, q, a, b P, ts []frac) []frac {
	d1 := Orient(p, q, a)
	d2 := Orient(p, q, b)
	if d1 == 0 && d2 == 0 {
		for _, v := range [2]P{a, b} {
			if OnSeg(p, q, v) {
				ts = append(ts, param(p, q, v))
			}
		}
		return ts
	}
	if d1*d2 > 0 {
		return ts
	}
	rx, ry := q.X-p.X, q.Y-p.Y
	sx, sy := b.X-a.X, b.Y-a.Y
	den := rx*sy - ry*sx
	if den == 0 {
		return ts
	}
	num := (a.X-p.X)*sy - (a.Y-p.Y)*sx
	if den < 0 {
		num, den = -num, -den
	}
	if num >= 0 && num <= den {
		ts = append(ts, frac{num, den})
	}
	return ts
}

func param(p, q, v P) frac {
	dx := q.X - p.X
	if dx != 0 {
		n := v.X - p.X
		if dx < 0 {
			n, dx = -n, -dx
		}
		return frac{n, dx}
	}
	dy := q.Y - p.Y
	n := v.Y - p.Y
	if dy < 0 {
		n, dy = -n, -dy
	}
	return frac{n, dy}
}

// pieces returns the sorted distinct cut parameters of pq against sk
// (always including 0 and 1).
func pieces(sk []Seg, p, q P) []frac {
	ts := []frac{{0, 1}, {1, 1}}
	for _, s := range sk {
		ts = cuts(p, q, s.A, s.B, ts)
	}
	sort.Slice(ts, func(i, j int) bool { return fracLess(ts[i], ts[j]) })
	out := ts[:1]
	for _, t := range ts[1:] {
		if !fracEq(out[len(out)-1], t) {
			out = append(out, t)
		}
	}
	return out
}

// walk calls f on every cut point and on one interior point of every open
// piece of pq cut by sk; it stops and returns false as soon as f does.
func walk(sk []Seg, p, q P, f func(r Q, cut bool) bool) bool {
	if p == q {
		return f(Q{bi(p.X), bi(p.Y), bi(1)}, true)
	}
	ts := pieces(sk, p, q)
	for i, t := range ts {
		if !f(at(p, q, bi(t.n), bi(t.d)), true) {
			return false
		}
		if i+1 < len(ts) {
			u := ts[i+1]
			// mediant lies strictly between two distinct fractions
			n := new(big.Int).Add(bi(t.n), bi(u.n))
			d := new(big.Int).Add(bi(t.d), bi(u.d))
			if !f(at(p, q, n, d), false) {
				return false
			}
		}
	}
	return true
}

// SegIn: the closed segment pq is a subset of the closed set a.
func SegIn(a *Shape, sk []Seg, p, q P) bool {
	if !a.In(p) || !a.In(q) {
		return false
	}
	return walk(sk, p, q, func(r Q, _ bool) bool { return a.InQ(r) })
}

// InteriorPoint returns a point strictly inside a simple ring.
func (r Ring) InteriorPoint() (Q, bool) {
	n := len(r)
	segs := r.Segs()
	for i := 0; i < n; i++ {
		a, b, c := r[i], r[(i+1)%n], r[(i+2)%n]
		q := Q{bi(a.X + b.X + c.X), bi(a.Y + b.Y + c.Y), bi(3)}
		if locateQ(segs, q) == 1 {
			return q, true
		}
	}
	for i := 0; i < n; i++ {
		for j := i + 1; j < n; j++ {
			q := Q{bi(r[i].X + r[j].X), bi(r[i].Y + r[j].Y), bi(2)}
			if locateQ(segs, q) == 1 {
				return q, true
			}
		}
	}
	return Q{}, false
}

// Contains: every point of b belongs to a (valid shapes).
func Contains(a, b *Shape) bool {
	if b.HasInterior() && !a.HasInterior() {
		return false
	}
	sk := a.Skeleton()
	for _, s := range b.Skeleton() {
		if !SegIn(a, sk, s.A, s.B) {
			return false
		}
	}
	if b.HasInterior() && a.Kind == KPoly {
		for _, h := range a.Holes {
			ip, ok := h.InteriorPoint()
			if !ok {
				panic("exact: hole without interior point")
			}
			if b.InQ(ip) {
				return false
			}
		}
	}
	return true
}

// ---- leaf oracles for the ring/segment case analyses ----

// SegInClosedRing: pq inside the closed region of a simple ring.
func SegInClosedRing(r Ring, p, q P) bool {
	a := &Shape{Kind: KPoly, Ext: r}
	return SegIn(a, r.Segs(), p, q)
}

// SegInOpenRing: every point of pq strictly inside the ring.
func SegInOpenRing(r Ring, p, q P) bool {
	if r.Pip(p) != 1 || r.Pip(q) != 1 {
		return false
	}
	for _, s := range r.Segs() {
		if SegSeg(s, Seg{p, q}) {
			return false
		}
	}
	return true
}

// SegMeetsClosedRing: pq shares a point with the closed region.
func SegMeetsClosedRing(r Ring, p, q P) bool {
	if r.Pip(p) >= 0 || r.Pip(q) >= 0 {
		return true
	}
	for _, s := range r.Segs() {
		if SegSeg(s, Seg{p, q}) {
			return true
		}
	}
	return false
}

// SegMeetsOpenRing: some point of pq lies strictly inside the ring.
func SegMeetsOpenRing(r Ring, p, q P) bool {
	segs := r.Segs()
	found := false
	walk(segs, p, q, func(x Q, _ bool) bool {
		if locateQ(segs, x) == 1 {
			found = true
			return false
		}
		return true
	})
	return found
}

// LineCoversSegment: pq is a subset of the union of the line's segments.
func LineCoversSegment(line []P, p, q P) bool {
	a := &Shape{Kind: KLine, Pts: line}
	return SegIn(a, a.Skeleton(), p, q)
}

// ValidPoly: exterior and holes simple, every hole strictly inside the
// exterior, holes pairwise strictly disjoint (closed regions do not meet).
func ValidPoly(ext Ring, holes []Ring) bool {
	if !ext.Simple() {
		return false
	}
	es := ext.Segs()
	for i, h := range holes {
		if !h.Simple() {
			return false
		}
		hs := h.Segs()
		for _, s := range hs {
			for _, e := range es {
				if SegSeg(s, e) {
					return false
				}
			}
		}
		if ext.Pip(h[0]) != 1 {
			return false
		}
		for j := 0; j < i; j++ {
			g := holes[j]
			for _, s := range hs {
				for _, t := range g.Segs() {
					if SegSeg(s, t) {
						return false
					}
				}
			}
			if g.Pip(h[0]) >= 0 || h.Pip(g[0]) >= 0 {
				return false
			}
		}
	}
	return true
}
