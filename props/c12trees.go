package props

import (
	"fmt"
	"math"

	"github.com/tidwall/geojson"
	"github.com/tidwall/geojson/geometry"

	"verif/internal/exact"
	"verif/internal/gen"
	"verif/internal/mon"
)

// C12, object trees: the same exact symmetries applied to collections, nested
// collections and Features (added after seeded change C12-n, where a nested
// collection's rectangle lost its max side, so answers changed under a
// reflection).  Oracle-free comparison of the six object-level answers before
// and after the transformation.  A difference is a violation only if the
// composition of the library's own leaf answers (C10's definitions) is the
// same in both frames: then the asymmetry lies in the collection layer.  If the
// composed leaf answers differ as well, a leaf pair answers asymmetrically,
// which the pair families above own (and attribute); that is counted as
// inconclusive here.

type c12TreeCase struct {
	A         interface{} `json:"a"`
	B         interface{} `json:"b"`
	Transform string      `json:"transform"`
	Build     string      `json:"build"`
	Before    string      `json:"answers_before"`
	After     string      `json:"answers_after"`
}

type treeMap struct {
	Name string
	F    func(geometry.Point) geometry.Point
}

var c12TreeMaps = []treeMap{
	{"reflect-x", func(p geometry.Point) geometry.Point { return geometry.Point{X: -p.X, Y: p.Y} }},
	{"reflect-y", func(p geometry.Point) geometry.Point { return geometry.Point{X: p.X, Y: -p.Y} }},
	{"rotate180", func(p geometry.Point) geometry.Point { return geometry.Point{X: -p.X, Y: -p.Y} }},
	{"diagonal", func(p geometry.Point) geometry.Point { return geometry.Point{X: p.Y, Y: p.X} }},
	{"translate(+3,-5)", func(p geometry.Point) geometry.Point { return geometry.Point{X: p.X + 3, Y: p.Y - 5} }},
	{"scale*2", func(p geometry.Point) geometry.Point { return geometry.Point{X: p.X * 2, Y: p.Y * 2} }},
	{"anti-diagonal+translate", func(p geometry.Point) geometry.Point { return geometry.Point{X: 7 - p.Y, Y: 7 - p.X} }},
}

// mapNode: deep copy with every position mapped (a Rect's corners re-sorted).
func mapNode(n *Node, f func(geometry.Point) geometry.Point) *Node {
	m := &Node{Kind: n.Kind, Members: n.Members, Meters: n.Meters, Steps: n.Steps}
	for _, ring := range n.Rings {
		out := make([]geometry.Point, len(ring))
		for i, p := range ring {
			out[i] = f(p)
		}
		m.Rings = append(m.Rings, out)
	}
	if n.Kind == "Rect" && len(m.Rings) == 1 && len(m.Rings[0]) == 2 {
		a, b := m.Rings[0][0], m.Rings[0][1]
		m.Rings[0][0] = geometry.Point{X: math.Min(a.X, b.X), Y: math.Min(a.Y, b.Y)}
		m.Rings[0][1] = geometry.Point{X: math.Max(a.X, b.X), Y: math.Max(a.Y, b.Y)}
	}
	for _, ch := range n.Children {
		m.Children = append(m.Children, mapNode(ch, f))
	}
	return m
}

type c12TreeAns struct{ AiB, BiA, AcB, BwA, BcA, AwB bool }

func c12TreeEval(a, b geojson.Object) c12TreeAns {
	return c12TreeAns{a.Intersects(b), b.Intersects(a), a.Contains(b), b.Within(a), b.Contains(a), a.Within(b)}
}

// c12TreeDef: the composition of the library's leaf answers, as C10 defines it.
func c12TreeDef(a, b geojson.Object) [5]bool {
	var d [5]bool
	d[0] = defIntersects(a, b)
	d[1] = defContains(a, b)
	d[2] = defContains(b, a)
	if _, ok := isColl(unwrap(b)); !ok {
		d[3] = defWithinLeaf(a, b)
	}
	if _, ok := isColl(unwrap(a)); !ok {
		d[4] = defWithinLeaf(b, a)
	}
	return d
}

var c12TreeKinds = []string{"MultiPoint", "MultiLineString", "MultiPolygon", "GeometryCollection", "FeatureCollection", "Feature"}
var c12TreePartners = []string{"Point", "SimplePoint", "LineString", "Polygon", "Rect", "MultiPoint", "MultiLineString", "MultiPolygon", "GeometryCollection", "Feature", "FeatureCollection"}

func c12Trees(c *mon.Ctx) {
	n := c.Pick(160000, 3000000)
	for i := 0; i < n; i++ {
		if !c.Mine(i) {
			continue
		}
		r := c.SubRng("tree12", i)
		anchor := gen.RandShape(r, exact.KPoly, 1)
		na := c09Node(r, c12TreeKinds[i%len(c12TreeKinds)], anchor, 0)
		nb := c09Node(r, c12TreePartners[(i/len(c12TreeKinds))%len(c12TreePartners)], anchor, 0)
		if i%3 == 0 {
			// a larger collection: crosses small child-index thresholds
			k := []string{"MultiPolygon", "GeometryCollection", "FeatureCollection", "MultiLineString"}[(i/3)%4]
			na = c10Collection(r, k, anchor, 3+r.Intn(8), true)
		}
		if i%5 == 0 {
			// nest it once more: a collection inside a collection (or a Feature inside a FeatureCollection)
			if i%10 == 0 && na.Kind != "Feature" && na.Kind != "FeatureCollection" {
				na = nMulti("FeatureCollection", c09Node(r, "Point", anchor, 3), nFeature(na))
			} else if na.Kind != "Feature" && na.Kind != "FeatureCollection" {
				na = nMulti("GeometryCollection", c09Node(r, "Point", anchor, 3), na)
			}
		}
		t := c12TreeMaps[(i/7)%len(c12TreeMaps)]
		ma, mb := mapNode(na, t.F), mapNode(nb, t.F)
		build := "constructors"
		c.SetCase(func() interface{} {
			return c12TreeCase{A: na.Describe(), B: nb.Describe(), Transform: t.Name, Build: build}
		})
		c.Try(func() {
			var ic *geometry.IndexOptions
			switch i % 3 {
			case 1:
				ic = &geometry.IndexOptions{Kind: geometry.RTree, MinPoints: 1}
			case 2:
				ic = &geometry.IndexOptions{Kind: geometry.None}
			}
			oa, ob := na.Build(ic), nb.Build(ic)
			pa, pb := ma.Build(ic), mb.Build(ic)
			if i%2 == 0 && na.Parseable() && nb.Parseable() {
				po := &geojson.ParseOptions{IndexChildren: []int{0, 1, 2, 4, 64}[(i/2)%5], IndexGeometry: 1 + i%64, IndexGeometryKind: geometry.IndexKind(i % 3)}
				o1, e1 := geojson.Parse(na.JSON(), po)
				o2, e2 := geojson.Parse(nb.JSON(), po)
				o3, e3 := geojson.Parse(ma.JSON(), po)
				o4, e4 := geojson.Parse(mb.JSON(), po)
				if e1 == nil && e2 == nil && e3 == nil && e4 == nil {
					oa, ob, pa, pb = o1, o2, o3, o4
					build = fmt.Sprintf("parsed IndexChildren=%d", po.IndexChildren)
					c.Count("tree_pairs_parsed")
				}
			}
			c.Eval()
			c.Count("tree_pairs")
			c.Count("transform tree " + t.Name)
			before, after := c12TreeEval(oa, ob), c12TreeEval(pa, pb)
			if before.AiB || before.AcB || before.BcA {
				c.Count("tree_pairs_some_answer_true")
			}
			if rectsMeet(oa.Rect(), ob.Rect()) {
				c.NonTrivial(uint64(mon.NewH().S(oa.JSON()).S(ob.JSON()).S(t.Name)))
			}
			if before == after {
				return
			}
			cs := c12TreeCase{A: na.Describe(), B: nb.Describe(), Transform: t.Name, Build: build, Before: fmt.Sprintf("%+v", before), After: fmt.Sprintf("%+v", after)}
			if c12TreeDef(oa, ob) != c12TreeDef(pa, pb) {
				c.Inconclusive("object tree: a leaf pair answers differently after the transformation (owned by the pair families)")
				return
			}
			detail := "the object-level answers of a collection/Feature pair change under " + t.Name + " although the composition of the leaf answers does not"
			if (hasFeatureWrappedCollection(na) || hasFeatureWrappedCollection(nb)) && before.AiB == after.AiB && before.BiA == after.BiA {
				// only Contains/Within differ and a Feature wraps a collection: this is where F15 (a finding of C09/C10)
				// makes the answer depend on which single child covers the wrapped collection; not separable here
				c.Inconclusive("object tree: Contains/Within differs for a Feature-wrapped collection (F15 territory, owned by C09/C10)")
				return
			}
			c.Violation("tree-invariance", detail, cs)
		})
		if i%40000 == 13 && c.WantSample() {
			c.Sample(c12TreeCase{A: na.Describe(), B: nb.Describe(), Transform: t.Name, Build: build})
		}
	}
}
