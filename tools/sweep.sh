#!/bin/bash
# usage: tools/sweep.sh <tier> <seed> [ids...]  -- runs the checks one after another, prints one summary line each
cd "$(dirname "$0")/.."
TIER=$1; SEED=$2; shift 2
IDS="$@"; [ -z "$IDS" ] && IDS="C01 C02 C03 C04 C05 C06 C07 C08 C09 C10 C11 C12 C13 C14 C15 C16 C17 C18 C19"
for id in $IDS; do
  START=$(date +%s)
  OUT=$(VERIF_SEED=$SEED ./check.sh $id $TIER 2>&1); RC=$?
  echo "$id $TIER seed=$SEED exit=$RC $(( $(date +%s) - START ))s :: $(echo "$OUT" | grep -c '^VIOLATION') VIOLATION lines, $(echo "$OUT" | grep -c '^HARNESS') harness :: $(echo "$OUT" | tail -1 | cut -c1-160)"
  echo "$OUT" | grep -E '^(VIOLATION|HARNESS)' | head -3 | cut -c1-300
done
