#!/bin/sh
# usage: ./check.sh <ID> [quick|thorough]     (cwd-independent; rebuilds from /repo's working tree)
cd "$(dirname "$0")" || exit 2
export GOFLAGS=-mod=mod GOPROXY=off GOSUMDB=off GOTOOLCHAIN=local
ID=$1
TIER=${2:-${VERIF_TIER:-quick}}
RACE=
case "$ID" in C16) RACE=-race ;; esac
[ "$TIER" = thorough ] && case "$ID" in C05) RACE=-race ;; esac
mkdir -p bin out
BIN=bin/verif.$$
MODFLAG=
if [ -n "$VERIF_REPO" ]; then
  # development aid only: build against a scratch copy of the repository instead of /repo
  sed "s#=> /repo#=> $VERIF_REPO#" go.mod > out/alt.$$.mod && cp go.sum out/alt.$$.sum && MODFLAG="-modfile=out/alt.$$.mod"
fi
trap 'rm -f "$BIN" out/alt.$$.mod out/alt.$$.sum' EXIT INT TERM
if ! go build $MODFLAG $RACE -tags verif -o "$BIN" ./cmd/verif >out/build.$$.log 2>&1; then
  cat out/build.$$.log
  echo "HARNESS-ERROR property=$ID build failed"
  rm -f out/build.$$.log
  exit 2
fi
rm -f out/build.$$.log
"$BIN" check "$ID" --tier "$TIER"
exit $?
