#!/bin/bash
# usage: tools/seedtest.sh <seed dir> [check ids...]
#   <seed dir> holds patch.diff, demo_*_test.go, DEMO_LOCATION.txt, meta.json
# 1. confirms the seeded change in a scratch worktree outside /repo and /verif: suite passes with the patch,
#    demo fails with it and passes without it;
# 2. applies the patch to /repo, runs the given quick checks, and undoes it straight afterwards.
export GOFLAGS=-mod=mod GOPROXY=off GOSUMDB=off GOTOOLCHAIN=local
SD=$(realpath "$1"); shift
W=/tmp/vseed
[ -d $W ] || git -C /repo worktree add -q --detach $W HEAD
git -C $W checkout -q --detach $(git -C /repo rev-parse HEAD) 2>/dev/null
git -C $W checkout -q -- . ; git -C $W clean -fdq
LOC=$(tr -d ' \n' < $SD/DEMO_LOCATION.txt); [ -z "$LOC" ] && LOC=.
RACE=""; grep -qi -- "-race" $SD/meta.json && RACE="-race"
if ! git -C $W apply $SD/patch.diff; then echo "SEED patch does not apply"; exit 3; fi
( cd $W && go build ./... ) || { echo "SEED does not build"; exit 3; }
SUITE=$(cd $W && go test -vet=off -count=1 ./... 2>&1 | grep -E "^(FAIL|ok|---)" | grep -c "^FAIL")
for f in $SD/demo_*_test.go*; do b=$(basename $f); cp $f $W/$LOC/${b%.txt}; done
DEMO_WITH=$(cd $W && timeout 300 go test $RACE -vet=off -count=1 ./$LOC 2>&1 | grep -E "^(FAIL|ok)" | head -1 | cut -c1-40)
git -C $W apply -R $SD/patch.diff
DEMO_WITHOUT=$(cd $W && timeout 300 go test $RACE -vet=off -count=1 ./$LOC 2>&1 | grep -E "^(FAIL|ok)" | head -1 | cut -c1-40)
git -C $W checkout -q -- . ; git -C $W clean -fdq
echo "CONFIRM suite_failures_with_patch=$SUITE demo_with_patch=[$DEMO_WITH] demo_without_patch=[$DEMO_WITHOUT]"
[ $# -eq 0 ] && exit 0
git -C /repo apply $SD/patch.diff || { echo "patch does not apply to /repo"; exit 3; }
for id in "$@"; do
  OUT=$(/verif/check.sh $id quick 2>&1)
  echo "CHECK $id exit=$? $(echo "$OUT" | grep -c '^VIOLATION') violation lines; $(echo "$OUT" | tail -1 | cut -c1-170)"
  echo "$OUT" | grep '^VIOLATION' | head -2 | cut -c1-260
done
git -C /repo checkout -- .
git -C /repo status --short | head -3
