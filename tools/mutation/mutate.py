#!/usr/bin/env python3
# random single-token mutants of /repo (applied to the scratch worktree /tmp/vseed2), kept only when the repo's own suite passes,
# then run against the mapped quick checks (stop at the first one that reports).
import os,random,re,subprocess,sys,json,glob,time
W='/tmp/vseed2'; H='/tmp/verif-dev'
ENV=dict(os.environ,GOFLAGS='-mod=mod',GOPROXY='off',GOSUMDB='off',GOTOOLCHAIN='local')
seed=int(sys.argv[1]); N=int(sys.argv[2]); only=sys.argv[3] if len(sys.argv)>3 else ''
rnd=random.Random(seed)
files=[f for f in glob.glob(W+'/*.go')+glob.glob(W+'/geometry/*.go')+glob.glob(W+'/geo/*.go') if not f.endswith('_test.go') and 'verif_' not in f]
if only: files=[f for f in files if only in f]
SUBS=[(r'<=','<'),(r'>=','>'),(r'(?<![<>=!-])<(?![=<-])','<='),(r'(?<![<>=!-])>(?![=>])','>='),(r'==','!='),(r'!=','=='),(r'&&','||'),(r'\|\|','&&'),
      (r'\+ 1\b','+ 2'),(r'- 1\b','- 2'),(r'\btrue\b','false'),(r'\bfalse\b','true'),(r'\+ 1\b',''),(r'- 1\b',''),(r'\bi\+\+','i += 2'),(r'\bbreak\b','continue'),
      (r'\bMin\b','Max'),(r'\bMax\b','Min'),(r'\.X\b','.Y'),(r'\.Y\b','.X'),(r'\[0\]','[1]'),(r'\b0\b','1'),(r'\b1\b','0'),(r'\*','/'),(r' \+ ',' - '),(r' - ',' + ')]
def checks_for(f):
    rel=os.path.relpath(f,W)
    if rel.startswith('geometry/'): return ['C19','C18','C04','C01','C11','C05','C03','C12','C02','C10','C09']
    if rel.startswith('geo/'): return ['C15','C14','C13']
    if rel=='circle.go': return ['C13','C09','C11','C05','C06','C17','C08','C10']
    return ['C11','C05','C06','C17','C07','C09','C10','C08','C13','C01']
def sh(cmd,cwd,timeout=600):
    try:
        p=subprocess.run(cmd,cwd=cwd,env=ENV,shell=True,capture_output=True,text=True,timeout=timeout)
        return p.returncode,p.stdout+p.stderr
    except subprocess.TimeoutExpired:
        return 124,'timeout'
cov={}
for l in open('/tmp/cov/all.txt'):
    m=re.match(r'github.com/tidwall/geojson/(\S+):(\d+)\.\d+,(\d+)\.\d+ \d+ (\d+)',l)
    if m and int(m.group(4))>0:
        cov.setdefault(m.group(1),set()).update(range(int(m.group(2)),int(m.group(3))+1))
out=open('/tmp/mut/results.jsonl','a')
done=0; tries=0
while done<N and tries<N*5000:
    tries+=1
    f=rnd.choice(files); src=open(f).read().split('\n')
    cand=[i for i,l in enumerate(src) if l.strip() and not l.strip().startswith('//') and 'verif' not in l and not l.strip().startswith('import') and not l.startswith('package')]
    rel0=os.path.relpath(f,W)
    cand=[i for i in cand if (i+1) in cov.get(rel0,set())]
    if not cand: continue
    i=rnd.choice(cand); line=src[i]
    code=line.split('//')[0]
    pat,rep=rnd.choice(SUBS)
    ms=list(re.finditer(pat,code))
    if not ms: continue
    m=rnd.choice(ms)
    new=code[:m.start()]+rep+code[m.end():]+line[len(code):]
    if new==line: continue
    src2=src[:]; src2[i]=new
    open(f,'w').write('\n'.join(src2))
    rel=os.path.relpath(f,W)
    rc,o=sh('go build ./... && go vet ./... >/dev/null 2>&1; go build ./...',W,120)
    if rc!=0:
        sh('git checkout -- .',W); continue
    rc,o=sh('timeout 120 go test -vet=off -count=1 ./... 2>&1 | grep -E "^(FAIL|ok|panic)"',W,200)
    if 'FAIL' in o or 'panic' in o or 'ok' not in o:
        sh('git checkout -- .',W); continue
    # suite passes: candidate
    rec={'file':rel,'line':i+1,'old':line.strip(),'new':new.strip(),'results':{}}
    caught=None
    for c in checks_for(f):
        t0=time.time()
        rc,o=sh(f'VERIF_REPO={W} ./check.sh {c} quick 2>&1 | tail -1',H,1500)
        rc2,o2=sh(f'echo',H)
        # exit code of pipeline is tail's; parse violations
        mm=re.search(r'violations=(\d+)',o)
        v=int(mm.group(1)) if mm else -1
        rec['results'][c]=v
        if v!=0:
            caught=c; break
    rec['caught_by']=caught
    out.write(json.dumps(rec)+'\n'); out.flush()
    print(('CAUGHT %s'%caught if caught else 'SURVIVED'),rel,i+1,'|',line.strip()[:90],'=>',new.strip()[:90],flush=True)
    sh('git checkout -- .',W)
    done+=1
