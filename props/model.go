package props

import (
	"math"
	"math/rand"
	"strconv"
	"strings"

	"github.com/tidwall/geojson"
	"github.com/tidwall/geojson/geometry"
)

// Node is the harness' own model of a GeoJSON object tree.  The monitors
// compute their expectations from it; the library objects are built from it
// through the public constructors or by parsing its JSON text.
type Node struct {
	Kind     string             // Point SimplePoint LineString Polygon Rect MultiPoint MultiLineString MultiPolygon GeometryCollection Feature FeatureCollection Circle
	Rings    [][]geometry.Point // Point/SimplePoint: [[p]]; LineString: [pts]; Polygon: rings; Rect: [[min,max]]
	Children []*Node
	Members  string  // Feature members (constructor path)
	BBox     string  // text of a "bbox" member written by JSON() (foreign to the geometry: must change nothing)
	Meters   float64 // Circle
	Steps    int     // Circle
}

func nPoint(p geometry.Point) *Node { return &Node{Kind: "Point", Rings: [][]geometry.Point{{p}}} }
func nSimplePoint(p geometry.Point) *Node {
	return &Node{Kind: "SimplePoint", Rings: [][]geometry.Point{{p}}}
}
func nLine(p []geometry.Point) *Node { return &Node{Kind: "LineString", Rings: [][]geometry.Point{p}} }
func nPoly(rings ...[]geometry.Point) *Node {
	return &Node{Kind: "Polygon", Rings: rings}
}
func nRect(mn, mx geometry.Point) *Node {
	return &Node{Kind: "Rect", Rings: [][]geometry.Point{{mn, mx}}}
}
func nMulti(kind string, ch ...*Node) *Node { return &Node{Kind: kind, Children: ch} }
func nFeature(ch *Node) *Node               { return &Node{Kind: "Feature", Children: []*Node{ch}} }
func nCircle(c geometry.Point, m float64, steps int) *Node {
	return &Node{Kind: "Circle", Rings: [][]geometry.Point{{c}}, Meters: m, Steps: steps}
}

// IsCollection reports the five collection kinds.
func (n *Node) IsCollection() bool {
	switch n.Kind {
	case "MultiPoint", "MultiLineString", "MultiPolygon", "GeometryCollection", "FeatureCollection":
		return true
	}
	return false
}

// Build constructs the library object through the public constructors.
func (n *Node) Build(ic *geometry.IndexOptions) geojson.Object {
	switch n.Kind {
	case "Point":
		return geojson.NewPoint(n.Rings[0][0])
	case "SimplePoint":
		return geojson.NewSimplePoint(n.Rings[0][0])
	case "LineString":
		return geojson.NewLineString(newLineOwn(n.Rings[0], ic))
	case "Polygon":
		if len(n.Rings) == 0 {
			return geojson.NewPolygon(geometry.NewPoly(nil, nil, ic))
		}
		return geojson.NewPolygon(newPolyOwn(n.Rings[0], n.Rings[1:], ic))
	case "Rect":
		return geojson.NewRect(geometry.Rect{Min: n.Rings[0][0], Max: n.Rings[0][1]})
	case "Circle":
		return geojson.NewCircle(n.Rings[0][0], n.Meters, n.Steps)
	case "MultiPoint":
		var ps []geometry.Point
		for _, c := range n.Children {
			ps = append(ps, c.Rings[0][0])
		}
		return geojson.NewMultiPoint(ps)
	case "MultiLineString":
		var ls []*geometry.Line
		for _, c := range n.Children {
			ls = append(ls, newLineOwn(c.Rings[0], ic))
		}
		return geojson.NewMultiLineString(ls)
	case "MultiPolygon":
		var ps []*geometry.Poly
		for _, c := range n.Children {
			if len(c.Rings) == 0 {
				ps = append(ps, geometry.NewPoly(nil, nil, ic))
			} else {
				ps = append(ps, newPolyOwn(c.Rings[0], c.Rings[1:], ic))
			}
		}
		return geojson.NewMultiPolygon(ps)
	case "GeometryCollection", "FeatureCollection":
		var os []geojson.Object
		for _, c := range n.Children {
			os = append(os, c.Build(ic))
		}
		if n.Kind == "GeometryCollection" {
			return geojson.NewGeometryCollection(os)
		}
		return geojson.NewFeatureCollection(os)
	case "Feature":
		return geojson.NewFeature(n.Children[0].Build(ic), n.Members)
	}
	panic("model: unknown kind " + n.Kind)
}

func fnum(b *strings.Builder, f float64) {
	b.WriteString(strconv.FormatFloat(f, 'g', -1, 64))
}

func jpos(b *strings.Builder, p geometry.Point) {
	b.WriteByte('[')
	fnum(b, p.X)
	b.WriteByte(',')
	fnum(b, p.Y)
	b.WriteByte(']')
}

func jring(b *strings.Builder, ps []geometry.Point) {
	b.WriteByte('[')
	for i, p := range ps {
		if i > 0 {
			b.WriteByte(',')
		}
		jpos(b, p)
	}
	b.WriteByte(']')
}

func (n *Node) coords(b *strings.Builder) {
	switch n.Kind {
	case "Point", "SimplePoint":
		jpos(b, n.Rings[0][0])
	case "LineString":
		jring(b, n.Rings[0])
	case "Polygon":
		b.WriteByte('[')
		for i, r := range n.Rings {
			if i > 0 {
				b.WriteByte(',')
			}
			jring(b, r)
		}
		b.WriteByte(']')
	case "Rect":
		mn, mx := n.Rings[0][0], n.Rings[0][1]
		b.WriteByte('[')
		jring(b, []geometry.Point{mn, {X: mx.X, Y: mn.Y}, mx, {X: mn.X, Y: mx.Y}, mn})
		b.WriteByte(']')
	}
}

// Parseable reports whether the node's JSON text is acceptable to a GeoJSON
// parser (lines of >= 2 positions, closed rings of >= 4, polygons with a ring).
func (n *Node) Parseable() bool {
	switch n.Kind {
	case "LineString":
		return len(n.Rings[0]) >= 2
	case "Polygon":
		if len(n.Rings) == 0 {
			return false
		}
		for _, r := range n.Rings {
			if len(r) < 4 || r[0] != r[len(r)-1] {
				return false
			}
		}
	case "Circle":
		return false
	}
	for _, c := range n.Children {
		if !c.Parseable() {
			return false
		}
	}
	return true
}

// JSON renders the GeoJSON text of the node.
func (n *Node) JSON() string {
	var b strings.Builder
	n.json(&b)
	return b.String()
}

func (n *Node) json(b *strings.Builder) {
	switch n.Kind {
	case "Point", "SimplePoint", "LineString", "Polygon", "Rect":
		t := n.Kind
		if t == "SimplePoint" {
			t = "Point"
		}
		if t == "Rect" {
			t = "Polygon"
		}
		b.WriteString(`{"type":"` + t + `","coordinates":`)
		n.coords(b)
		n.bboxMember(b)
		b.WriteByte('}')
	case "MultiPoint", "MultiLineString", "MultiPolygon":
		b.WriteString(`{"type":"` + n.Kind + `","coordinates":[`)
		for i, c := range n.Children {
			if i > 0 {
				b.WriteByte(',')
			}
			c.coords(b)
		}
		b.WriteString("]")
		n.bboxMember(b)
		b.WriteString("}")
	case "GeometryCollection", "FeatureCollection":
		key := "geometries"
		if n.Kind == "FeatureCollection" {
			key = "features"
		}
		b.WriteString(`{"type":"` + n.Kind + `","` + key + `":[`)
		for i, c := range n.Children {
			if i > 0 {
				b.WriteByte(',')
			}
			c.json(b)
		}
		b.WriteString("]")
		n.bboxMember(b)
		b.WriteString("}")
	case "Feature":
		b.WriteString(`{"type":"Feature","geometry":`)
		n.Children[0].json(b)
		n.bboxMember(b)
		b.WriteString(`,"properties":{}}`)
	default:
		panic("model: no JSON for " + n.Kind)
	}
}

func (n *Node) bboxMember(b *strings.Builder) {
	if n.BBox != "" {
		b.WriteString(`,"bbox":` + n.BBox)
	}
}

// DecorateBBoxes gives some nodes of the tree a "bbox" member: the tight box in
// the 2-D form, the 3-D form [w,s,zmin,e,n,zmax] (zmin chosen so that a reader
// taking it for [w,s,e,n] gets a plausible box), and stale or bogus boxes.  The
// member is foreign to the geometry; nothing the checks observe may depend on it.
func (n *Node) DecorateBBoxes(r *rand.Rand) {
	n.Walk(func(k *Node) {
		p := 4
		if k.Kind == "Feature" {
			p = 2
		}
		if k.Kind == "Circle" || r.Intn(p) != 0 {
			return
		}
		ps := k.Positions(false, nil)
		if len(ps) == 0 {
			k.BBox = []string{"[0,0,0,0]", "null", "[1,2,3,4]"}[r.Intn(3)]
			return
		}
		w, s, e, nn := ps[0].X, ps[0].Y, ps[0].X, ps[0].Y
		for _, q := range ps {
			w, e = math.Min(w, q.X), math.Max(e, q.X)
			s, nn = math.Min(s, q.Y), math.Max(nn, q.Y)
		}
		f := func(vs ...float64) string {
			for _, v := range vs {
				if math.IsNaN(v) || math.IsInf(v, 0) {
					return "null"
				}
			}
			var b strings.Builder
			b.WriteByte('[')
			for i, v := range vs {
				if i > 0 {
					b.WriteByte(',')
				}
				fnum(&b, v)
			}
			b.WriteByte(']')
			return b.String()
		}
		switch r.Intn(8) {
		case 0, 1:
			k.BBox = f(w, s, e, nn)
		case 2:
			k.BBox = f(w, s, w, e, nn, w+10) // 3-D, zmin = west
		case 3:
			k.BBox = f(w, s, 0, e, nn, 100)
		case 4:
			k.BBox = f(w+50, s+50, e+50, nn+50) // stale
		case 5:
			k.BBox = f(w, s, (w+e)/2, (s+nn)/2) // too small
		case 6:
			k.BBox = f(w-1, s-1, e+1, nn+1) // rounded out
		default:
			k.BBox = []string{"[0,0,0,0]", "null", "[]", `"x"`, "[1000,1000,1001,1001]", "[10,10,-10,-10]"}[r.Intn(6)]
		}
	})
}

// Empty per the property: no part that occupies space.
func (n *Node) Empty() bool {
	switch n.Kind {
	case "Point", "SimplePoint", "Rect", "Circle":
		return false
	case "LineString":
		return len(n.Rings[0]) < 2
	case "Polygon":
		return len(n.Rings) == 0 || len(n.Rings[0]) < 3
	}
	for _, c := range n.Children {
		if !c.Empty() {
			return false
		}
	}
	return true
}

// Positions lists every position; with nonEmptyOnly, only those of parts that
// are not empty.
func (n *Node) Positions(nonEmptyOnly bool, out []geometry.Point) []geometry.Point {
	if nonEmptyOnly && n.Empty() {
		return out
	}
	switch n.Kind {
	case "Rect":
		mn, mx := n.Rings[0][0], n.Rings[0][1]
		return append(out, mn, mx)
	case "Circle":
		return append(out, n.Rings[0][0])
	}
	for _, r := range n.Rings {
		out = append(out, r...)
	}
	for _, c := range n.Children {
		out = c.Positions(nonEmptyOnly, out)
	}
	return out
}

// NumPositions counts positions the way NumPoints is documented to (a Rect
// counts 2).
func (n *Node) NumPositions() int {
	k := 0
	switch n.Kind {
	case "Rect":
		return 2
	case "Circle":
		return 1
	}
	for _, r := range n.Rings {
		k += len(r)
	}
	for _, c := range n.Children {
		k += c.NumPositions()
	}
	return k
}

// Walk visits the node and all descendants.
func (n *Node) Walk(f func(*Node)) {
	f(n)
	for _, c := range n.Children {
		c.Walk(f)
	}
}

// Depth of nesting.
func (n *Node) Depth() int {
	d := 0
	for _, c := range n.Children {
		if cd := c.Depth(); cd > d {
			d = cd
		}
	}
	return d + 1
}

// Describe is a compact rendering for evidence and replay files.
func (n *Node) Describe() interface{} {
	m := map[string]interface{}{"kind": n.Kind}
	if len(n.Rings) > 0 {
		var rs [][]jpt
		tot := 0
		for _, r := range n.Rings {
			var row []jpt
			for _, p := range r {
				if tot >= 80 {
					break
				}
				row = append(row, jpt{p.X, p.Y})
				tot++
			}
			rs = append(rs, row)
		}
		m["positions"] = rs
	}
	if n.Kind == "Circle" {
		m["meters"] = n.Meters
		m["steps"] = n.Steps
	}
	if n.Members != "" {
		m["members"] = n.Members
	}
	if n.BBox != "" {
		m["bbox_member"] = n.BBox
	}
	if len(n.Children) > 0 {
		var cs []interface{}
		for i, c := range n.Children {
			if i >= 12 {
				cs = append(cs, "...")
				break
			}
			cs = append(cs, c.Describe())
		}
		m["children"] = cs
	}
	return m
}

// ---- random trees ----

// CoordGen produces coordinate values.
type CoordGen func(r *rand.Rand) geometry.Point

// TreeOpts steers randTree.
type TreeOpts struct {
	Coord      CoordGen
	MaxDepth   int
	MaxKids    int
	MaxPts     int
	Empties    bool // allow empty lines / polygons / collections
	ValidRings bool // polygons are closed rings of >= 4 positions (parseable)
	Kinds      []string
}

var allKinds = []string{"Point", "SimplePoint", "LineString", "Polygon", "Rect", "MultiPoint", "MultiLineString", "MultiPolygon", "GeometryCollection", "Feature", "FeatureCollection"}

func randLinePts(r *rand.Rand, o *TreeOpts) []geometry.Point {
	n := 2 + r.Intn(max(1, o.MaxPts-1))
	if o.Empties && r.Intn(6) == 0 {
		n = r.Intn(2)
	}
	ps := make([]geometry.Point, n)
	for i := range ps {
		ps[i] = o.Coord(r)
	}
	return ps
}

func randRingPts(r *rand.Rand, o *TreeOpts) []geometry.Point {
	n := 3 + r.Intn(max(1, o.MaxPts-2))
	if o.Empties && !o.ValidRings && r.Intn(6) == 0 {
		n = r.Intn(3)
	}
	ps := make([]geometry.Point, n)
	for i := range ps {
		ps[i] = o.Coord(r)
	}
	if n > 0 && (o.ValidRings || r.Intn(2) == 0) {
		ps = append(ps, ps[0])
	}
	return ps
}

func randTree(r *rand.Rand, o *TreeOpts, depth int) *Node {
	kinds := o.Kinds
	if len(kinds) == 0 {
		kinds = allKinds
	}
	k := kinds[r.Intn(len(kinds))]
	if depth >= o.MaxDepth {
		for k == "GeometryCollection" || k == "FeatureCollection" || k == "Feature" {
			k = kinds[r.Intn(len(kinds))]
			if len(kinds) < 4 {
				k = "Point"
			}
		}
	}
	return randTreeKind(r, o, depth, k)
}

func randTreeKind(r *rand.Rand, o *TreeOpts, depth int, k string) *Node {
	nk := func() int {
		n := 1 + r.Intn(max(1, o.MaxKids))
		if o.Empties && r.Intn(8) == 0 {
			n = 0
		}
		return n
	}
	switch k {
	case "Point":
		return nPoint(o.Coord(r))
	case "SimplePoint":
		return nSimplePoint(o.Coord(r))
	case "LineString":
		return nLine(randLinePts(r, o))
	case "Polygon":
		n := &Node{Kind: "Polygon"}
		rings := 1 + r.Intn(3)
		if r.Intn(2) == 0 {
			rings = 1
		}
		for i := 0; i < rings; i++ {
			n.Rings = append(n.Rings, randRingPts(r, o))
		}
		return n
	case "Rect":
		a, b := o.Coord(r), o.Coord(r)
		return nRect(geometry.Point{X: math.Min(a.X, b.X), Y: math.Min(a.Y, b.Y)}, geometry.Point{X: math.Max(a.X, b.X), Y: math.Max(a.Y, b.Y)})
	case "MultiPoint":
		n := &Node{Kind: k}
		for i := nk(); i > 0; i-- {
			n.Children = append(n.Children, nPoint(o.Coord(r)))
		}
		return n
	case "MultiLineString":
		n := &Node{Kind: k}
		for i := nk(); i > 0; i-- {
			n.Children = append(n.Children, nLine(randLinePts(r, o)))
		}
		return n
	case "MultiPolygon":
		n := &Node{Kind: k}
		for i := nk(); i > 0; i-- {
			n.Children = append(n.Children, randTreeKind(r, o, depth+1, "Polygon"))
		}
		return n
	case "GeometryCollection", "FeatureCollection":
		n := &Node{Kind: k}
		for i := nk(); i > 0; i-- {
			n.Children = append(n.Children, randTree(r, o, depth+1))
		}
		return n
	case "Feature":
		return nFeature(randTree(r, o, depth+1))
	}
	panic("model: kind " + k)
}
