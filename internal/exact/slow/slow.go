// Package slow: independent big.Rat re-implementation of the planar oracle, used only to cross-check package exact in its unit test.
package slow

import (
	"math/big"
	"sort"
)

type R = *big.Rat
type Pt struct{ X, Y R }

func F(f float64) R     { r := new(big.Rat); r.SetFloat64(f); return r }
func P(x, y float64) Pt { return Pt{F(x), F(y)} }
func sub(a, b R) R      { return new(big.Rat).Sub(a, b) }
func mul(a, b R) R      { return new(big.Rat).Mul(a, b) }
func add(a, b R) R      { return new(big.Rat).Add(a, b) }
func Cross(o, a, b Pt) int {
	return sub(mul(sub(a.X, o.X), sub(b.Y, o.Y)), mul(sub(a.Y, o.Y), sub(b.X, o.X))).Sign()
}
func between(a, b, p R) bool {
	if a.Cmp(b) > 0 {
		a, b = b, a
	}
	return a.Cmp(p) <= 0 && p.Cmp(b) <= 0
}
func OnSeg(a, b, p Pt) bool {
	return Cross(a, b, p) == 0 && between(a.X, b.X, p.X) && between(a.Y, b.Y, p.Y)
}
func Eq(a, b Pt) bool { return a.X.Cmp(b.X) == 0 && a.Y.Cmp(b.Y) == 0 }

type Seg struct{ A, B Pt }

func SegX(s, t Seg) bool {
	a, b, c, d := s.A, s.B, t.A, t.B
	d1, d2 := Cross(a, b, c), Cross(a, b, d)
	d3, d4 := Cross(c, d, a), Cross(c, d, b)
	if d1*d2 < 0 && d3*d4 < 0 {
		return true
	}
	return OnSeg(a, b, c) || OnSeg(a, b, d) || OnSeg(c, d, a) || OnSeg(c, d, b)
}

// Ring without closing duplicate
type Ring []Pt

func (r Ring) Segs() []Seg {
	var s []Seg
	n := len(r)
	for i := 0; i < n; i++ {
		s = append(s, Seg{r[i], r[(i+1)%n]})
	}
	return s
}

// 1 inside, 0 boundary, -1 outside
func (r Ring) Pip(p Pt) int {
	n := len(r)
	in := false
	for i := 0; i < n; i++ {
		a, b := r[i], r[(i+1)%n]
		if OnSeg(a, b, p) {
			return 0
		}
		ab := a.Y.Cmp(p.Y) <= 0
		bb := b.Y.Cmp(p.Y) <= 0
		if ab != bb {
			c := Cross(a, b, p)
			if ab && c > 0 || !ab && c < 0 {
				in = !in
			}
		}
	}
	if in {
		return 1
	}
	return -1
}

func (r Ring) Simple() bool {
	n := len(r)
	if n < 3 {
		return false
	}
	s := r.Segs()
	for i := 0; i < n; i++ {
		if Eq(s[i].A, s[i].B) {
			return false
		}
		for j := i + 1; j < n; j++ {
			adj := j == i+1 || (i == 0 && j == n-1)
			if !adj {
				if SegX(s[i], s[j]) {
					return false
				}
			} else {
				// adjacent: must only share the common vertex
				var shared, o1, o2 Pt
				if j == i+1 {
					shared, o1, o2 = s[i].B, s[i].A, s[j].B
				} else {
					shared, o1, o2 = s[i].A, s[i].B, s[j].A
				}
				if OnSeg(shared, o1, o2) || OnSeg(shared, o2, o1) {
					return false
				}
			}
		}
	}
	// area nonzero
	return r.Area2().Sign() != 0
}
func (r Ring) Area2() R {
	s := new(big.Rat)
	n := len(r)
	for i := 0; i < n; i++ {
		a, b := r[i], r[(i+1)%n]
		s = add(s, sub(mul(a.X, b.Y), mul(a.Y, b.X)))
	}
	return s
}

// strict interior point
func (r Ring) Interior() (Pt, bool) {
	n := len(r)
	three := big.NewRat(3, 1)
	for i := 0; i < n; i++ {
		a, b, c := r[i], r[(i+1)%n], r[(i+2)%n]
		p := Pt{new(big.Rat).Quo(add(add(a.X, b.X), c.X), three), new(big.Rat).Quo(add(add(a.Y, b.Y), c.Y), three)}
		if r.Pip(p) == 1 {
			return p, true
		}
	}
	two := big.NewRat(2, 1)
	for i := 0; i < n; i++ {
		for j := i + 1; j < n; j++ {
			p := Pt{new(big.Rat).Quo(add(r[i].X, r[j].X), two), new(big.Rat).Quo(add(r[i].Y, r[j].Y), two)}
			if r.Pip(p) == 1 {
				return p, true
			}
		}
	}
	return Pt{}, false
}

type Kind int

const (
	KPoint Kind = iota
	KRect
	KLine
	KPoly
)

type Shape struct {
	Kind  Kind
	Pts   []Pt   // point: 1; rect: min,max; line: vertices
	Ext   Ring   // poly
	Holes []Ring // poly
}

func (s *Shape) Skeleton() []Seg {
	switch s.Kind {
	case KPoint:
		return []Seg{{s.Pts[0], s.Pts[0]}}
	case KRect:
		mn, mx := s.Pts[0], s.Pts[1]
		c := []Pt{{mn.X, mn.Y}, {mx.X, mn.Y}, {mx.X, mx.Y}, {mn.X, mx.Y}}
		return Ring(c).Segs()
	case KLine:
		var out []Seg
		for i := 0; i+1 < len(s.Pts); i++ {
			out = append(out, Seg{s.Pts[i], s.Pts[i+1]})
		}
		return out
	default:
		out := s.Ext.Segs()
		for _, h := range s.Holes {
			out = append(out, h.Segs()...)
		}
		return out
	}
}

// one representative vertex per connected boundary component
func (s *Shape) Reps() []Pt {
	switch s.Kind {
	case KPoint, KRect, KLine:
		return []Pt{s.Pts[0]}
	default:
		out := []Pt{s.Ext[0]}
		for _, h := range s.Holes {
			out = append(out, h[0])
		}
		return out
	}
}

func (s *Shape) HasInterior() bool {
	switch s.Kind {
	case KRect:
		return s.Pts[0].X.Cmp(s.Pts[1].X) != 0 && s.Pts[0].Y.Cmp(s.Pts[1].Y) != 0
	case KPoly:
		return true
	}
	return false
}

func (s *Shape) In(p Pt) bool {
	switch s.Kind {
	case KPoint:
		return Eq(s.Pts[0], p)
	case KRect:
		return between(s.Pts[0].X, s.Pts[1].X, p.X) && between(s.Pts[0].Y, s.Pts[1].Y, p.Y)
	case KLine:
		for _, sg := range s.Skeleton() {
			if OnSeg(sg.A, sg.B, p) {
				return true
			}
		}
		return false
	default:
		if s.Ext.Pip(p) < 0 {
			return false
		}
		for _, h := range s.Holes {
			if h.Pip(p) > 0 {
				return false
			}
		}
		return true
	}
}

func Intersects(a, b *Shape) bool {
	sa, sb := a.Skeleton(), b.Skeleton()
	for _, x := range sa {
		for _, y := range sb {
			if SegX(x, y) {
				return true
			}
		}
	}
	for _, p := range a.Reps() {
		if b.In(p) {
			return true
		}
	}
	for _, p := range b.Reps() {
		if a.In(p) {
			return true
		}
	}
	return false
}

func param(p, q, v Pt) R {
	dx := sub(q.X, p.X)
	if dx.Sign() != 0 {
		return new(big.Rat).Quo(sub(v.X, p.X), dx)
	}
	dy := sub(q.Y, p.Y)
	if dy.Sign() == 0 {
		return new(big.Rat)
	}
	return new(big.Rat).Quo(sub(v.Y, p.Y), dy)
}
func at(p, q Pt, t R) Pt {
	return Pt{add(p.X, mul(t, sub(q.X, p.X))), add(p.Y, mul(t, sub(q.Y, p.Y)))}
}
func cuts(p, q, a, b Pt, ts []R) []R {
	d1 := Cross(p, q, a)
	d2 := Cross(p, q, b)
	if Eq(p, q) {
		return ts
	}
	if d1 == 0 && d2 == 0 {
		for _, v := range []Pt{a, b} {
			if OnSeg(p, q, v) {
				ts = append(ts, param(p, q, v))
			}
		}
		return ts
	}
	if d1*d2 > 0 {
		return ts
	}
	rx, ry := sub(q.X, p.X), sub(q.Y, p.Y)
	sx, sy := sub(b.X, a.X), sub(b.Y, a.Y)
	den := sub(mul(rx, sy), mul(ry, sx))
	if den.Sign() == 0 {
		return ts
	}
	num := sub(mul(sub(a.X, p.X), sy), mul(sub(a.Y, p.Y), sx))
	t := new(big.Rat).Quo(num, den)
	if t.Sign() >= 0 && t.Cmp(big.NewRat(1, 1)) <= 0 {
		ts = append(ts, t)
	}
	return ts
}

// SegIn: closed segment pq subset of shape a (closed set)
func SegIn(a *Shape, sk []Seg, p, q Pt) bool {
	ts := []R{new(big.Rat), big.NewRat(1, 1)}
	for _, s := range sk {
		ts = cuts(p, q, s.A, s.B, ts)
	}
	sort.Slice(ts, func(i, j int) bool { return ts[i].Cmp(ts[j]) < 0 })
	two := big.NewRat(2, 1)
	for i := 0; i < len(ts); i++ {
		if !a.In(at(p, q, ts[i])) {
			return false
		}
		if i+1 < len(ts) && ts[i].Cmp(ts[i+1]) != 0 {
			m := new(big.Rat).Quo(add(ts[i], ts[i+1]), two)
			if !a.In(at(p, q, m)) {
				return false
			}
		}
	}
	return true
}

func Contains(a, b *Shape) bool {
	if b.HasInterior() && !a.HasInterior() {
		return false
	}
	sk := a.Skeleton()
	for _, s := range b.Skeleton() {
		if !SegIn(a, sk, s.A, s.B) {
			return false
		}
	}
	if b.HasInterior() && a.Kind == KPoly {
		for _, h := range a.Holes {
			ip, ok := h.Interior()
			if !ok {
				panic("no interior point")
			}
			if b.In(ip) {
				return false
			}
		}
	}
	return true
}
