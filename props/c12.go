package props

import (
	"fmt"

	"github.com/tidwall/geojson/geometry"

	"verif/internal/exact"
	"verif/internal/gen"
	"verif/internal/mon"
)

// C12: predicates are invariant under re-encoding and rigid lattice symmetries.

type c12Answers struct {
	v  [4]bool // contains(a,b), contains(b,a), intersects(a,b), intersects(b,a)
	ev [2][]*geometry.VerifEvent
}

var c12Names = [4]string{"A.contains(B)", "B.contains(A)", "A.intersects(B)", "B.intersects(A)"}

func c12Eval(la, lb libShape) c12Answers {
	var r c12Answers
	r.ev[0] = traced(func() { r.v[0] = gContains(la, lb) })
	r.ev[1] = traced(func() { r.v[1] = gContains(lb, la) })
	r.v[2] = gIntersects(la, lb)
	r.v[3] = gIntersects(lb, la)
	return r
}

var c12Transforms = []gen.Transform{
	{Name: "translate(+3,-5)", TX: 3 * gen.U, TY: -5 * gen.U},
	{Name: "translate(+2^20-64,-(2^20-64))", TX: (1<<20 - 64) * gen.U, TY: -(1<<20 - 64) * gen.U},
	{Name: "translate(1/8,1/8)", TX: 2, TY: 2},
	{Name: "translate(2^20-64+1/16, -(2^19+3/16))", TX: (1<<20-64)*gen.U + 1, TY: -(1<<19)*gen.U - 3},
	{Name: "scale*2", Num: 2},
	{Name: "scale*1024", Num: 1024},
	{Name: "scale/2", Den: 2},
	{Name: "scale/8", Den: 8},
	{Name: "reflect-x", NegX: true},
	{Name: "reflect-y", NegY: true},
	{Name: "rotate180", NegX: true, NegY: true},
	{Name: "diagonal", Swap: true},
	{Name: "anti-diagonal+translate", Swap: true, NegX: true, NegY: true, TX: 7 * gen.U, TY: 7 * gen.U},
}

// reencode returns point-set-preserving re-encodings of a shape.
func reencode(c *mon.Ctx, s *exact.Shape, n int) []*exact.Shape {
	var out []*exact.Shape
	switch s.Kind {
	case exact.KLine:
		out = append(out, &exact.Shape{Kind: exact.KLine, Pts: gen.ReversePts(s.Pts)})
	case exact.KPoly:
		k := len(s.Ext)
		rots := []int{}
		if k <= 12 {
			for r := 1; r < k; r++ {
				rots = append(rots, r)
			}
		} else {
			rr := c.SubRng("rot", n)
			for i := 0; i < 8; i++ {
				rots = append(rots, 1+rr.Intn(k-1))
			}
		}
		for _, r := range rots {
			out = append(out, &exact.Shape{Kind: exact.KPoly, Ext: gen.Rotate(s.Ext, r), Holes: s.Holes})
		}
		out = append(out, &exact.Shape{Kind: exact.KPoly, Ext: gen.Reverse(s.Ext), Holes: s.Holes})
		if len(s.Holes) > 0 {
			var hs []exact.Ring
			for i, h := range s.Holes {
				hh := gen.Rotate(h, 1+i)
				if i%2 == 0 {
					hh = gen.Reverse(hh)
				}
				hs = append(hs, hh)
			}
			// holes re-encoded and listed in the opposite order
			for i, j := 0, len(hs)-1; i < j; i, j = i+1, j-1 {
				hs[i], hs[j] = hs[j], hs[i]
			}
			out = append(out, &exact.Shape{Kind: exact.KPoly, Ext: s.Ext, Holes: hs})
		}
	}
	return out
}

func c12Pair(c *mon.Ctx, a, b *exact.Shape, family string, closedA bool, n int) {
	ic := baseIdx[n%3]
	if n%5 == 0 {
		ic = IdxCfg{geometry.QuadTree, 64}
	}
	c.SetCase(func() interface{} {
		return pairCase(a, b, map[string]interface{}{"family": family, "index": ic.String()})
	})
	c.Try(func() {
		base := c12Eval(buildLib(a, ic, closedA), buildLib(b, ic, !closedA))
		var want [4]bool
		haveWant := false
		for i, v := range base.v {
			if v {
				c.Count("base_true " + c12Names[i])
			}
		}
		compare := func(name string, a2, b2 *exact.Shape, la, lb libShape) {
			got := c12Eval(la, lb)
			c.Eval()
			c.Count("transform " + name)
			if got.v == base.v {
				return
			}
			if !haveWant {
				want = [4]bool{exact.Contains(a, b), exact.Contains(b, a), exact.Intersects(a, b), exact.Intersects(b, a)}
				haveWant = true
			}
			for i := 0; i < 4; i++ {
				if got.v[i] == base.v[i] {
					continue
				}
				// exactly one of the two sides is wrong; find its trace
				var at attribution
				var wa, wb *exact.Shape
				side := "transformed"
				if got.v[i] != want[i] {
					if i < 2 {
						at = attribute(got.ev[i])
					}
					wa, wb = a2, b2
				} else {
					side = "original"
					if i < 2 {
						at = attribute(base.ev[i])
					}
					wa, wb = a, b
				}
				if i == 1 {
					wa, wb = wb, wa
				}
				cs := pairCase(a, b, map[string]interface{}{"family": family, "index": ic.String(), "closed_a": closedA, "transform": name, "predicate": c12Names[i],
					"original_answer": base.v[i], "transformed_answer": got.v[i], "exact": want[i], "wrong_side": side, "attribution": at,
					"transformed_a": sj(a2), "transformed_b": sj(b2)})
				detail := fmt.Sprintf("%s changes from %v to %v under %s (exact %v)", c12Names[i], base.v[i], got.v[i], name, want[i])
				vk := fmt.Sprintf("variant %s %s", c12Names[i], name)
				if i < 2 {
					gotWrong := !want[i]
					if gotWrong && len(at.Disagreeing) == 0 && wa.Kind == exact.KPoly && len(wa.Holes) > 0 && wb.HasInterior() && boundaryInside(wa, wb) {
						c.KnownOrViolation("F24", vk, detail, cs)
						continue
					}
					if id, _ := classifyWrong(at, false, 0); id != "" {
						c.KnownOrViolation(id, vk, detail, cs)
						continue
					}
				}
				c.Violation(vk, detail, cs)
			}
		}
		// rigid symmetries and re-scalings of both shapes
		for ti, t := range c12Transforms {
			if (ti+n)%2 == 0 && !c.Thorough() && ti > 3 {
				continue
			}
			a2, ok1 := t.ApplyShape(a)
			b2, ok2 := t.ApplyShape(b)
			if !ok1 || !ok2 {
				c.Count("transform_not_exact")
				continue
			}
			compare(t.Name, a2, b2, buildLib(a2, ic, closedA), buildLib(b2, ic, !closedA))
		}
		// fine affine encodings on the library side (for instance a 1/1024 grid next to 2^20)
		{
			enc := fineEncs[n%len(fineEncs)]
			la, lb := buildLibEnc(a, ic, closedA, enc), buildLibEnc(b, ic, !closedA, enc)
			got := c12Eval(la, lb)
			c.Eval()
			c.Count("transform fine-encoding")
			if got.v != base.v {
				if !haveWant {
					want = [4]bool{exact.Contains(a, b), exact.Contains(b, a), exact.Intersects(a, b), exact.Intersects(b, a)}
					haveWant = true
				}
				for i := 0; i < 4; i++ {
					if got.v[i] == base.v[i] {
						continue
					}
					var at attribution
					wa, wb := a, b
					side := "encoded"
					if got.v[i] != want[i] {
						if i < 2 {
							at = attributeEnc(got.ev[i], enc)
						}
					} else {
						side = "original"
						if i < 2 {
							at = attribute(base.ev[i])
						}
					}
					if i == 1 {
						wa, wb = wb, wa
					}
					cs := pairCase(a, b, map[string]interface{}{"family": family, "index": ic.String(), "closed_a": closedA, "transform": "fine encoding " + enc.Name, "predicate": c12Names[i],
						"original_answer": base.v[i], "transformed_answer": got.v[i], "exact": want[i], "wrong_side": side, "attribution": at})
					detail := fmt.Sprintf("%s changes from %v to %v under the exact encoding %s (exact %v)", c12Names[i], base.v[i], got.v[i], enc.Name, want[i])
					vk := "variant " + c12Names[i] + " fine-encoding"
					if i < 2 {
						if !want[i] && len(at.Disagreeing) == 0 && wa.Kind == exact.KPoly && len(wa.Holes) > 0 && wb.HasInterior() && boundaryInside(wa, wb) {
							c.KnownOrViolation("F24", vk, detail, cs)
							continue
						}
						if id, _ := classifyWrong(at, false, 0); id != "" {
							c.KnownOrViolation(id, vk, detail, cs)
							continue
						}
					}
					c.Violation(vk, detail, cs)
				}
			}
		}
		// translation through Move()
		{
			dx, dy := float64(3+n%5), float64(-2-n%3)
			t := gen.Transform{TX: int64(dx) * gen.U, TY: int64(dy) * gen.U}
			a2, _ := t.ApplyShape(a)
			b2, _ := t.ApplyShape(b)
			la, lb := buildLib(a, ic, closedA), buildLib(b, ic, !closedA)
			compare("Move", a2, b2, moveLib(la, dx, dy), moveLib(lb, dx, dy))
		}
		// re-encodings of one shape
		for _, b2 := range reencode(c, b, n) {
			compare("re-encode B", a, b2, buildLib(a, ic, closedA), buildLib(b2, ic, !closedA))
		}
		for _, a2 := range reencode(c, a, n) {
			compare("re-encode A", a2, b, buildLib(a2, ic, closedA), buildLib(b, ic, !closedA))
		}
		compare("closure toggled", a, b, buildLib(a, ic, !closedA), buildLib(b, ic, closedA))
	})
}

func moveLib(l libShape, dx, dy float64) libShape {
	out := l
	switch v := l.g.(type) {
	case geometry.Point:
		out.g = v.Move(dx, dy)
	case geometry.Rect:
		out.g = v.Move(dx, dy)
	case *geometry.Line:
		out.g = v.Move(dx, dy)
	case *geometry.Poly:
		out.g = v.Move(dx, dy)
	}
	return out
}

func c12Run(c *mon.Ctx) {
	loadContainmentKnown(c)
	o := pairOpts{random: c.Pick(1500000, 20000000), large: c.Pick(60000, 1000000)}
	item := 0
	sink := func(a, b *exact.Shape, family string, corpus, closedA bool, n int) {
		c12Pair(c, a, b, family, closedA, n)
		if boxesMeet(a, b) {
			c.NonTrivial(uint64(hashShape(hashShape(mon.NewH(), a), b)))
		}
		if n%20000 == 11 && c.WantSample() {
			c.Sample(pairCase(a, b, map[string]interface{}{"family": family, "transforms": len(c12Transforms), "re-encodings_of_b": len(reencode(c, b, n)), "re-encodings_of_a": len(reencode(c, a, n))}))
		}
	}
	randomPairs(c, o, &item, sink)
	largePairs(c, o, &item, sink)
	c12Trees(c)
	// corpus rings against a few fixed partners, every rotation
	for ri, nr := range gen.Corpus {
		for v := 0; v < 4; v++ {
			item++
			if !c.Mine(item) {
				continue
			}
			ring := corpusVariant(nr, v)
			a := &exact.Shape{Kind: exact.KPoly, Ext: ring}
			r := c.SubRng("corpus12", ri*10+v)
			for k := 0; k < c.Pick(40, 400); k++ {
				b := gen.RandShapeNear(r, kinds4[k%4], a, 1)
				sink(a, b, "corpus:"+nr.Name, false, v%2 == 0, item*1000+k)
				sink(b, a, "corpus-rev:"+nr.Name, false, v%2 == 0, item*1000+k)
			}
		}
	}
}

func init() {
	must := []string{"transform fine-encoding", "transform Move", "transform re-encode B", "transform re-encode A", "transform closure toggled"}
	for _, t := range c12Transforms {
		must = append(must, "transform "+t.Name)
	}
	for _, n := range c12Names {
		must = append(must, "base_true "+n)
	}
	for _, t := range c12TreeMaps {
		must = append(must, "transform tree "+t.Name)
	}
	must = append(must, "tree_pairs_parsed", "tree_pairs_some_answer_true")
	mon.Register(&mon.Prop{
		ID:          "C12",
		Rule:        "contact-biased random valid pairs of all 16 kind combinations (same generators as C02/C03) and corpus rings against shapes drawn around them; for each pair the four answers (A contains B, B contains A, intersects in both orders) are recomputed under 12 exact transformations applied to both shapes (translations incl. +-(2^20-64) and 1/8, scalings by 2, 1024, 1/2, 1/8, reflections, 180-degree turn, diagonal and anti-diagonal swaps), under Move(), under every rotation of the start vertex of each ring (<=12 vertices; 8 random rotations beyond), reversal of rings and lines, re-encoded and re-ordered holes, and with the closing vertex added/removed. Object trees (collections, nested collections, Features; constructor-built and parsed under child-index thresholds 0/1/2/4/64) are compared under 7 of the transformations at object level. Oracle-free: all answers must equal the original ones; only when they differ is the exact oracle consulted to find the wrong side and to attribute it through the decision-site tracer. Non-trivial = distinct pair whose boxes meet.",
		Assumptions: []string{"valid shapes on the exact domain; transformations whose result is not exactly representable are skipped and counted", "a difference is a known finding only if the wrong side is explained by the listed sites of F4/F5 or by F24; otherwise it is a violation"},
		Run:         c12Run,
		MustSee:     must,
	})
}
