#!/bin/sh
# usage: tools/mut.sh '<python expr returning (file, old, new)>' ID...   -- apply a one-off textual mutant to /repo, run quick checks, revert
# example: tools/mut.sh "('geometry/poly.go','a','b')" C03
SPEC=$1; shift
python3 - "$SPEC" <<'PY' || exit 1
import sys
f,old,new=eval(sys.argv[1])
p='/repo/'+f
s=open(p).read()
assert s.count(old)>=1, 'pattern not found'
open(p,'w').write(s.replace(old,new,1))
PY
(cd /repo && GOFLAGS=-mod=mod GOPROXY=off go build ./... ) || { git -C /repo checkout -- .; echo "mutant does not build"; exit 1; }
for id in "$@"; do /verif/check.sh $id quick | grep -v '^VIOLATION' | grep -v KNOWN | tail -1 | cut -c1-200; done
git -C /repo checkout -- .
