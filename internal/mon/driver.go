package mon

import (
	"context"
	"encoding/json"
	"fmt"
	"os"
	"os/exec"
	"path/filepath"
	"sort"
	"strconv"
	"strings"
	"sync"
	"syscall"
	"time"
)

func envInt(name string, def int) int {
	if v := os.Getenv(name); v != "" {
		if n, err := strconv.Atoi(v); err == nil {
			return n
		}
	}
	return def
}

type workerOutcome struct {
	shard   int
	exit    int
	timeout bool
	res     *Result
	logTail string
}

func tail(path string, n int) string {
	b, err := os.ReadFile(path)
	if err != nil {
		return ""
	}
	if len(b) > n {
		b = b[len(b)-n:]
	}
	return string(b)
}

func runOne(p *Prop, tier string, seed int64, shard, nshards int, outdir string, limit time.Duration) workerOutcome {
	exe, _ := os.Executable()
	logPath := filepath.Join(outdir, fmt.Sprintf("w%02d.log", shard))
	lf, _ := os.Create(logPath)
	defer lf.Close()
	ctx, cancel := context.WithTimeout(context.Background(), limit)
	defer cancel()
	cmd := exec.Command(exe, "worker", p.ID, tier, strconv.FormatInt(seed, 10),
		strconv.Itoa(shard), strconv.Itoa(nshards), outdir)
	cmd.Stdout, cmd.Stderr = lf, lf
	cmd.Env = append(os.Environ(), "VERIF_ROOT="+Root())
	if p.Race {
		cmd.Env = append(cmd.Env, "GORACE=halt_on_error=0 log_path="+filepath.Join(outdir, fmt.Sprintf("race%02d", shard)))
	}
	out := workerOutcome{shard: shard}
	if err := cmd.Start(); err != nil {
		out.exit = 127
		out.logTail = err.Error()
		return out
	}
	done := make(chan error, 1)
	go func() { done <- cmd.Wait() }()
	select {
	case err := <-done:
		if err != nil {
			if ee, ok := err.(*exec.ExitError); ok {
				out.exit = ee.ExitCode()
				if out.exit < 0 {
					out.exit = 128
				}
			} else {
				out.exit = 127
			}
		}
	case <-ctx.Done():
		cmd.Process.Signal(syscall.SIGQUIT)
		select {
		case <-done:
		case <-time.After(10 * time.Second):
			cmd.Process.Kill()
			<-done
		}
		out.timeout = true
		out.exit = 124
	}
	if b, err := os.ReadFile(filepath.Join(outdir, fmt.Sprintf("w%02d.json", shard))); err == nil {
		var r Result
		if json.Unmarshal(b, &r) == nil {
			out.res = &r
		}
	}
	out.logTail = tail(logPath, 6000)
	return out
}

// Check runs property id at the tier and returns the process exit code.
func Check(id, tier string, seed int64) int {
	p := Lookup(id)
	if p == nil {
		fmt.Printf("HARNESS-ERROR unknown property %s\n", id)
		return 2
	}
	start := time.Now()
	root := Root()
	outdir := filepath.Join(root, "out", id+"-"+tier)
	os.RemoveAll(outdir)
	os.MkdirAll(outdir, 0o755)
	evPath := filepath.Join(root, "evidence", id+".json")
	os.MkdirAll(filepath.Dir(evPath), 0o755)

	np := 16
	if p.Procs > 0 {
		np = p.Procs
	}
	np = envInt("VERIF_PROCS", np)
	limit := 20 * time.Minute
	if tier == "thorough" {
		limit = 100 * time.Minute
	}
	limit = time.Duration(envInt("VERIF_WATCHDOG_S", int(limit/time.Second))) * time.Second

	outs := make([]workerOutcome, np)
	var wg sync.WaitGroup
	for s := 0; s < np; s++ {
		wg.Add(1)
		go func(s int) {
			defer wg.Done()
			outs[s] = runOne(p, tier, seed, s, np, outdir, limit)
		}(s)
	}
	wg.Wait()

	merged := Result{Counters: map[string]int64{}, Known: map[string]*KnownHit{}, Inconclusive: map[string]int64{}}
	distinct := map[uint64]struct{}{}
	var harness []string
	var extraViol []Violation

	// no-progress watchdog: confirm by re-running the affected shards alone
	// (one after another, nothing else running)
	for i := range outs {
		o := &outs[i]
		if o.exit != 3 {
			continue
		}
		hangFile := filepath.Join(outdir, fmt.Sprintf("hang%02d.json", o.shard))
		os.Remove(hangFile)
		again := runOne(p, tier, seed, o.shard, np, outdir, limit)
		if again.exit == 3 {
			second, _ := os.ReadFile(hangFile)
			var rec struct {
				Case   json.RawMessage `json:"case"`
				Stacks string          `json:"stacks"`
			}
			json.Unmarshal(second, &rec)
			st := rec.Stacks
			if len(st) > 3000 {
				st = st[:3000]
			}
			extraViol = append(extraViol, Violation{Kind: "hang", Detail: "no progress twice on the same case (isolated re-run confirmed)\n" + st, Case: rec.Case})
			if again.res != nil {
				o.res = again.res
			}
			// one confirmed hang is enough to fail the run; do not spend the
			// watchdog time again on the other shards
			for j := range outs {
				if outs[j].exit == 3 && j != i {
					merged.Inconclusive["watchdog fired, not re-run (another shard already confirmed a hang)"]++
				}
			}
			break
		} else if again.exit == 0 && again.res != nil && again.res.Done {
			merged.Inconclusive["watchdog fired once, not confirmed"]++
			*o = again
		} else {
			*o = again
		}
	}
	for i := range outs {
		o := &outs[i]
		switch {
		case o.timeout:
			merged.Inconclusive["outer wall-clock watchdog"]++
			harness = append(harness, fmt.Sprintf("worker %d exceeded the outer watchdog (%s)", o.shard, limit))
		case o.exit == 0 || o.exit == 3:
		case p.Race && o.exit == 66:
			// the race detector's exit status: the reports are read from its log below
		default:
			// crash: fatal error, race-detector abort, checkptr, stack overflow
			cur, _ := os.ReadFile(filepath.Join(outdir, fmt.Sprintf("cur%02d.case", o.shard)))
			if len(cur) == 0 {
				cur = []byte(`"(no journalled case)"`)
			}
			if !json.Valid(cur) {
				cur, _ = json.Marshal(string(cur))
			}
			extraViol = append(extraViol, Violation{Kind: "crash", Detail: fmt.Sprintf("worker %d exit %d\n%s", o.shard, o.exit, o.logTail), Case: cur})
		}
		if o.res == nil {
			if o.exit == 0 {
				harness = append(harness, fmt.Sprintf("worker %d produced no result", o.shard))
			}
			continue
		}
		r := o.res
		merged.Evals += r.Evals
		merged.NViolations += r.NViolations
		for k, v := range r.Counters {
			merged.Counters[k] += v
		}
		for k, v := range r.Inconclusive {
			merged.Inconclusive[k] += v
		}
		for k, v := range r.Known {
			h := merged.Known[k]
			if h == nil {
				h = &KnownHit{Sample: v.Sample}
				merged.Known[k] = h
			}
			h.Count += v.Count
		}
		for _, h := range r.Distinct {
			distinct[h] = struct{}{}
		}
		merged.DistinctCap = merged.DistinctCap || r.DistinctCap
		merged.Violations = append(merged.Violations, r.Violations...)
		if len(merged.Samples) < 5 {
			for _, s := range r.Samples {
				if len(merged.Samples) < 5 {
					merged.Samples = append(merged.Samples, s)
				}
			}
		}
	}
	merged.Violations = append(merged.Violations, extraViol...)
	merged.NViolations += int64(len(extraViol))

	// race detector logs
	raceBlocks := 0
	if p.Race {
		files, _ := filepath.Glob(filepath.Join(outdir, "race*"))
		seen := map[string]bool{}
		for _, f := range files {
			b, _ := os.ReadFile(f)
			blocks := strings.Split(string(b), "WARNING: DATA RACE")
			for _, blk := range blocks[1:] {
				raceBlocks++
				key := raceKey(blk)
				if seen[key] {
					continue
				}
				seen[key] = true
				if len(blk) > 3500 {
					blk = blk[:3500]
				}
				cs, _ := json.Marshal(map[string]string{"report": "WARNING: DATA RACE" + blk})
				merged.Violations = append(merged.Violations, Violation{Kind: "data-race", Detail: key, Case: cs})
				merged.NViolations++
			}
		}
		merged.Counters["race_report_blocks"] = int64(raceBlocks)
		merged.Counters["race_reports_distinct"] = int64(len(seen))
	}

	for _, name := range p.MustSee {
		if merged.Counters[name] == 0 {
			harness = append(harness, "coverage target missed: counter "+name+" is zero")
		}
	}
	if p.Post != nil {
		harness = append(harness, p.Post(&merged, tier)...)
	}
	if merged.Evals == 0 {
		harness = append(harness, "no observations")
	}

	// evidence
	known := LoadKnown()
	var stale []string
	for id, e := range known {
		if e.Covers(p.ID) && e.Status == "known" {
			if _, ok := merged.Known[id]; !ok {
				stale = append(stale, id)
			}
		}
	}
	sort.Strings(stale)
	knownObs := map[string]int64{}
	for k, v := range merged.Known {
		knownObs[k] = v.Count
	}
	samples := make([]interface{}, 0, len(merged.Samples))
	for _, s := range merged.Samples {
		samples = append(samples, s)
	}
	exh := false
	if p.Exhaustive != nil {
		exh = p.Exhaustive(tier)
	}
	cov := map[string]interface{}{
		"evaluations":             merged.Evals,
		"distinct_nontrivial":     len(distinct),
		"distinct_capped":         merged.DistinctCap,
		"rule":                    p.Rule,
		"samples":                 samples,
		"exhaustive":              exh,
		"counters":                merged.Counters,
		"inconclusive":            merged.Inconclusive,
		"known_findings_observed": knownObs,
		"stale_known":             stale,
		"workers":                 np,
		"harness_errors":          harness,
	}
	ev := map[string]interface{}{
		"property_id": p.ID,
		"tier":        tier,
		"seed":        seed,
		"level":       p.Level,
		"coverage":    cov,
		"assumptions": p.Assumptions,
		"wall_s":      time.Since(start).Seconds(),
		"violations":  merged.NViolations,
	}
	b, _ := json.MarshalIndent(ev, "", " ")
	os.WriteFile(evPath, b, 0o644)

	// verdict lines
	ids := make([]string, 0, len(merged.Known))
	for k := range merged.Known {
		ids = append(ids, k)
	}
	sort.Strings(ids)
	for _, k := range ids {
		fmt.Printf("KNOWN-FINDING: property=%s %s %s (n=%d)\n", p.ID, k, known[k].What, merged.Known[k].Count)
	}
	code := 0
	if merged.NViolations > 0 {
		code = 1
		repDir := filepath.Join(root, "replays", p.ID)
		os.MkdirAll(repDir, 0o755)
		for i, v := range merged.Violations {
			rec := map[string]interface{}{"property": p.ID, "tier": tier, "seed": seed, "kind": v.Kind, "detail": v.Detail, "case": v.Case}
			rb, _ := json.MarshalIndent(rec, "", " ")
			h := NewH().S(string(v.Case)).S(v.Kind)
			path := filepath.Join(repDir, fmt.Sprintf("%s-%016x.json", v.Kind2(), uint64(h)))
			os.WriteFile(path, rb, 0o644)
			if i < 20 {
				first := v.Detail
				if j := strings.IndexByte(first, '\n'); j >= 0 {
					first = first[:j]
				}
				fmt.Printf("VIOLATION property=%s replay=%s kind=%s %s\n", p.ID, path, v.Kind, first)
			}
		}
		fmt.Printf("violations: %d (showing at most 20, %d kept)\n", merged.NViolations, len(merged.Violations))
	}
	if len(harness) > 0 {
		for _, h := range harness {
			fmt.Printf("HARNESS-ERROR property=%s %s\n", p.ID, h)
		}
		if code == 0 {
			code = 2
		}
	}
	inc := int64(0)
	for _, v := range merged.Inconclusive {
		inc += v
	}
	fmt.Printf("%s %s seed=%d: evaluations=%d distinct_nontrivial=%d known=%d inconclusive=%d violations=%d wall=%.1fs\n",
		p.ID, tier, seed, merged.Evals, len(distinct), len(merged.Known), inc, merged.NViolations, time.Since(start).Seconds())
	return code
}

// Kind2 is a file-name-safe kind.
func (v Violation) Kind2() string {
	s := []byte(v.Kind)
	for i, c := range s {
		if !(c >= 'a' && c <= 'z' || c >= 'A' && c <= 'Z' || c >= '0' && c <= '9' || c == '-') {
			s[i] = '_'
		}
	}
	return string(s)
}

// raceKey deduplicates a race report by the outermost geojson frames of the
// two stacks (line numbers stripped).
func raceKey(blk string) string {
	var keys []string
	for _, part := range strings.Split(blk, "\n\n") {
		lines := strings.Split(part, "\n")
		if len(lines) == 0 {
			continue
		}
		head := strings.TrimSpace(lines[0])
		if !(strings.HasPrefix(head, "Read at") || strings.HasPrefix(head, "Write at") ||
			strings.HasPrefix(head, "Previous read") || strings.HasPrefix(head, "Previous write")) {
			continue
		}
		outer := ""
		inner := ""
		for _, l := range lines[1:] {
			l = strings.TrimSpace(l)
			if strings.HasPrefix(l, "github.com/tidwall/geojson") {
				fn := l
				if i := strings.LastIndexByte(fn, '('); i > 0 {
					fn = fn[:i]
				}
				fn = strings.TrimPrefix(fn, "github.com/tidwall/geojson")
				fn = strings.TrimLeft(fn, "/.")
				if inner == "" {
					inner = fn
				}
				outer = fn
			}
		}
		kind := strings.Fields(head)
		k := ""
		if len(kind) > 0 {
			k = kind[0]
			if k == "Previous" && len(kind) > 1 {
				k = kind[1]
			}
		}
		keys = append(keys, strings.ToLower(k)+":"+inner+"<-"+outer)
	}
	sort.Strings(keys)
	return strings.Join(keys, " | ")
}

// Replay re-executes a replay file.
func Replay(path string) int {
	b, err := os.ReadFile(path)
	if err != nil {
		fmt.Println("HARNESS-ERROR", err)
		return 2
	}
	var rec struct {
		Property string          `json:"property"`
		Kind     string          `json:"kind"`
		Detail   string          `json:"detail"`
		Case     json.RawMessage `json:"case"`
	}
	if err := json.Unmarshal(b, &rec); err != nil {
		fmt.Println("HARNESS-ERROR", err)
		return 2
	}
	p := Lookup(rec.Property)
	if p == nil || p.Replay == nil {
		fmt.Printf("no replay function for %s; recorded case:\n%s\n%s\n", rec.Property, rec.Case, rec.Detail)
		return 2
	}
	bad, detail := p.Replay(rec.Kind, rec.Case)
	if bad {
		fmt.Printf("VIOLATION property=%s replay=%s kind=%s %s\n", rec.Property, path, rec.Kind, detail)
		return 1
	}
	fmt.Printf("replay: case no longer violates %s (%s)\n", rec.Property, detail)
	return 0
}

// Journal writes the case about to be executed to the worker's journal file
// before the call, so that a process-fatal event is attributed to an input.
func (c *Ctx) Journal(v interface{}) {
	b, err := json.Marshal(v)
	if err != nil {
		b, _ = json.Marshal(fmt.Sprintf("%+v", v))
	}
	os.WriteFile(filepath.Join(c.OutDir, fmt.Sprintf("cur%02d.case", c.Shard)), b, 0o644)
}
