// Package gen holds the workload generators: a fixed contact corpus of rings,
// random valid shapes on the exact lattice, GeoJSON grammar documents and
// mutators, and sphere samplers.  It does not import the library under test.
package gen

import (
	"math/rand"
	"sort"

	"verif/internal/exact"
)

// U is the lattice unit in exact units (integers).
const U = exact.Scale

// NamedRing is a corpus ring in integer lattice coordinates (counter-clockwise,
// no closing vertex).
type NamedRing struct {
	Name string
	V    [][2]int64
}

// Corpus is the fixed, seed-independent library of simple rings used by the
// contact workloads.
var Corpus = []NamedRing{
	{"square", [][2]int64{{0, 0}, {4, 0}, {4, 4}, {0, 4}}},
	{"triangle", [][2]int64{{0, 0}, {4, 0}, {0, 4}}},
	{"diamond", [][2]int64{{2, 0}, {4, 2}, {2, 4}, {0, 2}}},
	{"L", [][2]int64{{0, 0}, {4, 0}, {4, 2}, {2, 2}, {2, 4}, {0, 4}}},
	{"U", [][2]int64{{0, 0}, {6, 0}, {6, 4}, {4, 4}, {4, 2}, {2, 2}, {2, 4}, {0, 4}}},
	{"comb", [][2]int64{{0, 0}, {6, 0}, {6, 4}, {5, 4}, {5, 1}, {4, 1}, {4, 4}, {2, 4}, {2, 1}, {1, 1}, {1, 4}, {0, 4}}},
	{"chevron", [][2]int64{{0, 0}, {2, 1}, {4, 0}, {2, 4}}},
	{"notch", [][2]int64{{0, 0}, {4, 0}, {4, 4}, {3, 4}, {2, 2}, {1, 4}, {0, 4}}},
	{"dent", [][2]int64{{0, 0}, {4, 0}, {4, 4}, {2, 3}, {0, 4}}},
	{"stairs", [][2]int64{{0, 0}, {4, 0}, {4, 1}, {3, 1}, {3, 2}, {2, 2}, {2, 3}, {1, 3}, {1, 4}, {0, 4}}},
	{"spiral", [][2]int64{{0, 0}, {6, 0}, {6, 6}, {1, 6}, {1, 2}, {4, 2}, {4, 4}, {3, 4}, {3, 3}, {2, 3}, {2, 5}, {5, 5}, {5, 1}, {0, 1}}},
	{"star", [][2]int64{{0, 0}, {3, 1}, {6, 0}, {5, 3}, {6, 6}, {3, 5}, {0, 6}, {1, 3}}},
	{"collinear-square", [][2]int64{{0, 0}, {2, 0}, {4, 0}, {4, 2}, {4, 4}, {2, 4}, {0, 4}, {0, 2}}},
	{"T", [][2]int64{{2, 0}, {4, 0}, {4, 3}, {6, 3}, {6, 5}, {0, 5}, {0, 3}, {2, 3}}},
	{"sliver", [][2]int64{{0, 0}, {6, 1}, {0, 2}, {5, 1}}},
	{"arrow", [][2]int64{{0, 1}, {3, 1}, {3, 0}, {6, 2}, {3, 4}, {3, 3}, {0, 3}}},
}

func init() {
	for _, r := range Corpus {
		if !r.Ring(1, 0, 0).Simple() || r.Ring(1, 0, 0).Area2() <= 0 {
			panic("gen: corpus ring " + r.Name + " is not a simple counter-clockwise ring")
		}
	}
}

// Ring returns the ring scaled by mul lattice units and translated (exact units).
func (n NamedRing) Ring(mul, tx, ty int64) exact.Ring {
	out := make(exact.Ring, len(n.V))
	for i, v := range n.V {
		out[i] = exact.P{X: v[0]*mul*U + tx, Y: v[1]*mul*U + ty}
	}
	return out
}

// Box returns the integer bounding box of the corpus ring.
func (n NamedRing) Box() (x0, y0, x1, y1 int64) {
	x0, y0, x1, y1 = n.V[0][0], n.V[0][1], n.V[0][0], n.V[0][1]
	for _, v := range n.V {
		x0, x1 = min(x0, v[0]), max(x1, v[0])
		y0, y1 = min(y0, v[1]), max(y1, v[1])
	}
	return
}

// Rotate returns the ring started at vertex k.
func Rotate(r exact.Ring, k int) exact.Ring {
	n := len(r)
	out := make(exact.Ring, 0, n)
	out = append(out, r[k%n:]...)
	out = append(out, r[:k%n]...)
	return out
}

// Reverse returns the ring traversed in the opposite direction (same start).
func Reverse(r exact.Ring) exact.Ring {
	n := len(r)
	out := make(exact.Ring, n)
	out[0] = r[0]
	for i := 1; i < n; i++ {
		out[i] = r[n-i]
	}
	return out
}

// ReversePts reverses a vertex list.
func ReversePts(p []exact.P) []exact.P {
	out := make([]exact.P, len(p))
	for i := range p {
		out[i] = p[len(p)-1-i]
	}
	return out
}

// Box of arbitrary points.
func Box(ps []exact.P) (mn, mx exact.P) {
	mn, mx = ps[0], ps[0]
	for _, p := range ps {
		mn.X, mx.X = min(mn.X, p.X), max(mx.X, p.X)
		mn.Y, mx.Y = min(mn.Y, p.Y), max(mx.Y, p.Y)
	}
	return
}

// ShapeBox is the bounding box of a shape.
func ShapeBox(s *exact.Shape) (mn, mx exact.P) {
	if s.Kind == exact.KPoly {
		return Box(s.Ext)
	}
	if s.Kind == exact.KRect {
		return s.Pts[0], s.Pts[1]
	}
	return Box(s.Pts)
}

// ---- random valid shapes ----

// angleLess orders lattice vectors by polar angle in [0, 2pi).
func half(p exact.P) int {
	if p.Y > 0 || (p.Y == 0 && p.X > 0) {
		return 0
	}
	return 1
}

func angleLess(a, b exact.P) bool {
	ha, hb := half(a), half(b)
	if ha != hb {
		return ha < hb
	}
	return a.X*b.Y-a.Y*b.X > 0
}

// RandStar returns a simple star-shaped ring with about n vertices on the
// integer lattice of radius rad, centred at (cx,cy) lattice units.
func RandStar(r *rand.Rand, n int, rad, cx, cy int64) exact.Ring {
	for try := 0; try < 200; try++ {
		var vs []exact.P
		for len(vs) < n {
			p := exact.P{X: r.Int63n(2*rad+1) - rad, Y: r.Int63n(2*rad+1) - rad}
			if p.X == 0 && p.Y == 0 {
				continue
			}
			vs = append(vs, p)
		}
		sort.Slice(vs, func(i, j int) bool { return angleLess(vs[i], vs[j]) })
		// one vertex per direction
		out := vs[:1]
		for _, v := range vs[1:] {
			l := out[len(out)-1]
			if l.X*v.Y-l.Y*v.X == 0 && half(l) == half(v) {
				if r.Intn(2) == 0 {
					out[len(out)-1] = v
				}
				continue
			}
			out = append(out, v)
		}
		ring := make(exact.Ring, len(out))
		for i, v := range out {
			ring[i] = exact.P{X: (v.X + cx) * U, Y: (v.Y + cy) * U}
		}
		if len(ring) >= 3 && ring.Simple() {
			return ring
		}
	}
	return Corpus[0].Ring(1, cx*U, cy*U)
}

// RandOrtho returns a rectilinear simple ring built from a double histogram
// (w columns, heights within [0,h]); rich in collinear runs and reflex
// vertices.
func RandOrtho(r *rand.Rand, w int, h, cx, cy int64) exact.Ring {
	for try := 0; try < 200; try++ {
		bot := make([]int64, w)
		top := make([]int64, w)
		for i := 0; i < w; i++ {
			bot[i] = r.Int63n(h/2 + 1)
			top[i] = bot[i] + 1 + r.Int63n(h-bot[i])
			if i > 0 && !(max(bot[i], bot[i-1]) < min(top[i], top[i-1])) {
				bot[i] = bot[i-1]
				if top[i] <= bot[i] {
					top[i] = bot[i] + 1
				}
			}
		}
		var v []exact.P
		add := func(x, y int64) {
			p := exact.P{X: (x + cx) * U, Y: (y + cy) * U}
			if len(v) > 0 && v[len(v)-1] == p {
				return
			}
			v = append(v, p)
		}
		// bottom profile left to right
		for i := 0; i < w; i++ {
			add(int64(i), bot[i])
			add(int64(i+1), bot[i])
		}
		// top profile right to left
		for i := w - 1; i >= 0; i-- {
			add(int64(i+1), top[i])
			add(int64(i), top[i])
		}
		if len(v) > 1 && v[len(v)-1] == v[0] {
			v = v[:len(v)-1]
		}
		// drop collinear middle vertices with probability 1/2 each, keep others
		ring := exact.Ring(v)
		if r.Intn(2) == 0 {
			ring = DropCollinear(ring)
		}
		if len(ring) >= 4 && ring.Simple() {
			return ring
		}
	}
	return Corpus[3].Ring(1, cx*U, cy*U)
}

// DropCollinear removes vertices whose two edges are collinear.
func DropCollinear(r exact.Ring) exact.Ring {
	n := len(r)
	var out exact.Ring
	for i := 0; i < n; i++ {
		a, b, c := r[(i+n-1)%n], r[i], r[(i+1)%n]
		if exact.Orient(a, b, c) == 0 {
			continue
		}
		out = append(out, b)
	}
	if len(out) < 3 {
		return r
	}
	return out
}

// SplitEdges inserts a lattice midpoint on some edges (creating collinear runs)
// without changing the point set.
func SplitEdges(r *rand.Rand, ring exact.Ring) exact.Ring {
	var out exact.Ring
	n := len(ring)
	for i := 0; i < n; i++ {
		a, b := ring[i], ring[(i+1)%n]
		out = append(out, a)
		if r.Intn(3) == 0 && (a.X+b.X)%2 == 0 && (a.Y+b.Y)%2 == 0 {
			out = append(out, exact.P{X: (a.X + b.X) / 2, Y: (a.Y + b.Y) / 2})
		}
	}
	return out
}

// RandRing returns a random simple ring near (cx,cy) with extent about size
// lattice units.
func RandRing(r *rand.Rand, size, cx, cy int64) exact.Ring {
	var ring exact.Ring
	switch r.Intn(5) {
	case 0:
		c := Corpus[r.Intn(len(Corpus))]
		ring = c.Ring(1+r.Int63n(2), cx*U, cy*U)
	case 1, 2:
		ring = RandOrtho(r, 2+r.Intn(5), max(2, size), cx, cy)
	default:
		ring = RandStar(r, 3+r.Intn(9), max(2, size/2+1), cx+size/2, cy+size/2)
	}
	if r.Intn(4) == 0 {
		ring = SplitEdges(r, ring)
	}
	if r.Intn(2) == 0 {
		ring = Reverse(ring)
	}
	return Rotate(ring, r.Intn(len(ring)))
}

// smallHole returns a small simple ring around lattice point (x,y) in half
// units.
func smallHole(r *rand.Rand, x, y int64) exact.Ring {
	hu := int64(U / 2)
	switch r.Intn(4) {
	case 0:
		return exact.Ring{{X: x * hu, Y: y * hu}, {X: (x + 2) * hu, Y: y * hu}, {X: (x + 2) * hu, Y: (y + 2) * hu}, {X: x * hu, Y: (y + 2) * hu}}
	case 1:
		return exact.Ring{{X: x * hu, Y: y * hu}, {X: (x + 2) * hu, Y: y * hu}, {X: x * hu, Y: (y + 2) * hu}}
	case 2:
		return exact.Ring{{X: x * hu, Y: y * hu}, {X: (x + 1) * hu, Y: y * hu}, {X: (x + 1) * hu, Y: (y + 1) * hu}, {X: x * hu, Y: (y + 1) * hu}}
	}
	// small L
	return exact.Ring{{X: x * hu, Y: y * hu}, {X: (x + 2) * hu, Y: y * hu}, {X: (x + 2) * hu, Y: (y + 1) * hu}, {X: (x + 1) * hu, Y: (y + 1) * hu}, {X: (x + 1) * hu, Y: (y + 2) * hu}, {X: x * hu, Y: (y + 2) * hu}}
}

// AddHoles tries to place up to k valid holes inside ext.
func AddHoles(r *rand.Rand, ext exact.Ring, k int) []exact.Ring {
	mn, mx := Box(ext)
	hu := int64(U / 2)
	var holes []exact.Ring
	for try := 0; try < 12*k && len(holes) < k; try++ {
		w, h := (mx.X-mn.X)/hu, (mx.Y-mn.Y)/hu
		if w < 3 || h < 3 {
			break
		}
		x := mn.X/hu + r.Int63n(w)
		y := mn.Y/hu + r.Int63n(h)
		hole := smallHole(r, x, y)
		if r.Intn(2) == 0 {
			hole = Reverse(hole)
		}
		cand := append(append([]exact.Ring{}, holes...), hole)
		if exact.ValidPoly(ext, cand) {
			holes = cand
		}
	}
	return holes
}

// RandPoly returns a valid polygon shape.
func RandPoly(r *rand.Rand, size, cx, cy int64, maxHoles int) *exact.Shape {
	ext := RandRing(r, size, cx, cy)
	s := &exact.Shape{Kind: exact.KPoly, Ext: ext}
	if maxHoles > 0 && r.Intn(2) == 0 {
		s.Holes = AddHoles(r, ext, 1+r.Intn(maxHoles))
	}
	return s
}

// Coords collects the distinct x and y coordinates "of interest" of a shape:
// its vertex coordinates and the half-way values between neighbours.
func Coords(s *exact.Shape) (xs, ys []int64) {
	var pts []exact.P
	switch s.Kind {
	case exact.KPoly:
		pts = append(pts, s.Ext...)
		for _, h := range s.Holes {
			pts = append(pts, h...)
		}
	case exact.KRect:
		pts = []exact.P{s.Pts[0], s.Pts[1]}
	default:
		pts = s.Pts
	}
	sx, sy := map[int64]bool{}, map[int64]bool{}
	for _, p := range pts {
		sx[p.X], sy[p.Y] = true, true
	}
	for v := range sx {
		xs = append(xs, v)
	}
	for v := range sy {
		ys = append(ys, v)
	}
	sort.Slice(xs, func(i, j int) bool { return xs[i] < xs[j] })
	sort.Slice(ys, func(i, j int) bool { return ys[i] < ys[j] })
	mid := func(v []int64) []int64 {
		out := append([]int64{}, v...)
		for i := 0; i+1 < len(v); i++ {
			if (v[i]+v[i+1])%2 == 0 {
				out = append(out, (v[i]+v[i+1])/2)
			}
		}
		out = append(out, v[0]-U, v[len(v)-1]+U)
		return out
	}
	return mid(xs), mid(ys)
}

// BiasedPoint draws a point whose coordinates come from a's coordinates of
// interest with probability 3/4.
func BiasedPoint(r *rand.Rand, xs, ys []int64, span int64) exact.P {
	pick := func(v []int64) int64 {
		if len(v) > 0 && r.Intn(4) != 0 {
			return v[r.Intn(len(v))]
		}
		base := int64(0)
		if len(v) > 0 {
			base = v[r.Intn(len(v))]
		}
		return base + (r.Int63n(2*span+1)-span)*(U/2)
	}
	return exact.P{X: pick(xs), Y: pick(ys)}
}

// RandShapeNear draws a valid shape of the given kind whose coordinates are
// contact-biased towards a.
func RandShapeNear(r *rand.Rand, kind exact.Kind, a *exact.Shape, maxHoles int) *exact.Shape {
	xs, ys := Coords(a)
	span := int64(4)
	switch kind {
	case exact.KPoint:
		return &exact.Shape{Kind: exact.KPoint, Pts: []exact.P{BiasedPoint(r, xs, ys, span)}}
	case exact.KRect:
		p, q := BiasedPoint(r, xs, ys, span), BiasedPoint(r, xs, ys, span)
		if r.Intn(8) == 0 {
			q.X = p.X
		}
		if r.Intn(8) == 0 {
			q.Y = p.Y
		}
		mn := exact.P{X: min(p.X, q.X), Y: min(p.Y, q.Y)}
		mx := exact.P{X: max(p.X, q.X), Y: max(p.Y, q.Y)}
		return &exact.Shape{Kind: exact.KRect, Pts: []exact.P{mn, mx}}
	case exact.KLine:
		n := 2 + r.Intn(5)
		s := &exact.Shape{Kind: exact.KLine}
		for i := 0; i < n; i++ {
			p := BiasedPoint(r, xs, ys, span)
			if i > 0 && r.Intn(6) == 0 {
				p = s.Pts[i-1] // zero-length segment
			}
			if i > 0 && r.Intn(3) == 0 { // axis-aligned step
				if r.Intn(2) == 0 {
					p.X = s.Pts[i-1].X
				} else {
					p.Y = s.Pts[i-1].Y
				}
			}
			s.Pts = append(s.Pts, p)
		}
		return s
	}
	// polygon: either an independent random polygon near a, or one whose
	// vertices are drawn from a's coordinates of interest
	mn, mx := ShapeBox(a)
	for try := 0; try < 50; try++ {
		if r.Intn(2) == 0 {
			n := 3 + r.Intn(5)
			var ring exact.Ring
			for i := 0; i < n; i++ {
				ring = append(ring, BiasedPoint(r, xs, ys, span))
			}
			if ring.Simple() {
				s := &exact.Shape{Kind: exact.KPoly, Ext: ring}
				if maxHoles > 0 && r.Intn(3) == 0 {
					s.Holes = AddHoles(r, ring, 1)
				}
				return s
			}
			continue
		}
		w := (mx.X-mn.X)/U + 2
		h := (mx.Y-mn.Y)/U + 2
		size := max(2, min(w, h))
		cx := mn.X/U - 1 + r.Int63n(w+1) - size/2
		cy := mn.Y/U - 1 + r.Int63n(h+1) - size/2
		return RandPoly(r, 1+r.Int63n(size), cx, cy, maxHoles)
	}
	return &exact.Shape{Kind: exact.KPoly, Ext: Corpus[0].Ring(1, mn.X, mn.Y)}
}

// RandShape draws a valid shape of the given kind around the origin.
func RandShape(r *rand.Rand, kind exact.Kind, maxHoles int) *exact.Shape {
	size := 2 + r.Int63n(8)
	cx, cy := r.Int63n(9)-4, r.Int63n(9)-4
	if kind == exact.KPoly {
		return RandPoly(r, size, cx, cy, maxHoles)
	}
	anchor := &exact.Shape{Kind: exact.KRect, Pts: []exact.P{{X: cx * U, Y: cy * U}, {X: (cx + size) * U, Y: (cy + size) * U}}}
	return RandShapeNear(r, kind, anchor, maxHoles)
}

// Transform is an exact affine map of the lattice (scale by 2^k, reflections,
// axis swap, translation).
type Transform struct {
	Name   string
	Num    int64 // multiply
	Den    int64 // then divide (must divide exactly)
	NegX   bool
	NegY   bool
	Swap   bool
	TX, TY int64
}

// Apply maps p; ok=false when the division is not exact or the result leaves
// the domain.
func (t Transform) Apply(p exact.P) (exact.P, bool) {
	x, y := p.X, p.Y
	if t.Swap {
		x, y = y, x
	}
	if t.NegX {
		x = -x
	}
	if t.NegY {
		y = -y
	}
	num, den := t.Num, t.Den
	if num == 0 {
		num = 1
	}
	if den == 0 {
		den = 1
	}
	x, y = x*num, y*num
	if x%den != 0 || y%den != 0 {
		return exact.P{}, false
	}
	x, y = x/den+t.TX, y/den+t.TY
	lim := int64(1<<21) * U
	if x > lim || x < -lim || y > lim || y < -lim {
		return exact.P{}, false
	}
	return exact.P{X: x, Y: y}, true
}

// ApplyShape maps a whole shape (rect corners are re-normalised).
func (t Transform) ApplyShape(s *exact.Shape) (*exact.Shape, bool) {
	out := &exact.Shape{Kind: s.Kind}
	mapPts := func(ps []exact.P) ([]exact.P, bool) {
		o := make([]exact.P, len(ps))
		for i, p := range ps {
			q, ok := t.Apply(p)
			if !ok {
				return nil, false
			}
			o[i] = q
		}
		return o, true
	}
	var ok bool
	if out.Pts, ok = mapPts(s.Pts); !ok {
		return nil, false
	}
	if s.Kind == exact.KRect {
		a, b := out.Pts[0], out.Pts[1]
		out.Pts = []exact.P{{X: min(a.X, b.X), Y: min(a.Y, b.Y)}, {X: max(a.X, b.X), Y: max(a.Y, b.Y)}}
	}
	if s.Kind == exact.KPoly {
		e, ok := mapPts(s.Ext)
		if !ok {
			return nil, false
		}
		out.Ext = e
		for _, h := range s.Holes {
			hh, ok := mapPts(h)
			if !ok {
				return nil, false
			}
			out.Holes = append(out.Holes, hh)
		}
	}
	return out, true
}

// Sawtooth returns a simple ring with a flat bottom and a zigzag top: w teeth
// of width 2 and random heights, total width 2w, so that many vertices share
// the same x and y levels (tips on the mid lines of the bounding box).
func Sawtooth(r *rand.Rand, w int, cx, cy int64) exact.Ring {
	h := int64(4 + 2*r.Intn(15))
	var v exact.Ring
	add := func(x, y int64) { v = append(v, exact.P{X: (x + cx) * U, Y: (y + cy) * U}) }
	add(0, 0)
	add(int64(2*w), 0)
	add(int64(2*w), h)
	for i := w - 1; i >= 0; i-- {
		dip := h / 2
		if r.Intn(3) == 0 {
			dip = 1 + r.Int63n(h-1)
		}
		add(int64(2*i+1), dip)
		add(int64(2*i), h)
	}
	if !v.Simple() {
		return Corpus[0].Ring(4, cx*U, cy*U)
	}
	return v
}

// RandBigRing returns a simple ring with roughly 34..90 vertices, large
// enough for the quadtree index to split.
func RandBigRing(r *rand.Rand) exact.Ring {
	var ring exact.Ring
	if r.Intn(12) == 0 {
		// more than 256 segments: two-byte item encodings in the compressed indexes
		ring = Sawtooth(r, 128+r.Intn(14), -int64(r.Intn(200)), -int64(r.Intn(10)))
		if r.Intn(2) == 0 {
			ring = Reverse(ring)
		}
		return Rotate(ring, r.Intn(len(ring)))
	}
	switch r.Intn(3) {
	case 0:
		ring = Sawtooth(r, 17+r.Intn(20), -int64(r.Intn(40)), -int64(r.Intn(10)))
	case 1:
		ring = RandOrtho(r, 10+r.Intn(12), 16, -8, -8)
		ring = SplitEdges(r, SplitEdges(r, ring))
	default:
		rad := int64(16 + 8*r.Intn(3))
		ring = RandStar(r, 40+r.Intn(50), rad, 0, 0)
	}
	if r.Intn(2) == 0 {
		ring = Reverse(ring)
	}
	return Rotate(ring, r.Intn(len(ring)))
}

// StarInBox returns a star-shaped ring of about n vertices whose lattice
// radius is rad around (cx,cy): its extreme vertices tend to lie on the
// box [cx-rad,cx+rad]x[cy-rad,cy+rad].
func StarInBox(r *rand.Rand, n int, rad, cx, cy int64) exact.Ring {
	ring := RandStar(r, n, rad, cx, cy)
	return ring
}
