package props

import (
	"bytes"
	"encoding/json"
	"fmt"
	"math"
	"math/rand"
	"strconv"
	"strings"

	"github.com/tidwall/geojson"
	"github.com/tidwall/geojson/geometry"

	"verif/internal/gen"
	"verif/internal/mon"
)

// C17: every constructible object serialises to well-formed GeoJSON, by appending.

type c17Case struct {
	Object  interface{} `json:"object"`
	Members string      `json:"members,omitempty"`
	What    string      `json:"what"`
	Output  string      `json:"output,omitempty"`
	Detail  string      `json:"detail,omitempty"`
}

var c17Floats = []float64{0, math.Copysign(0, -1), 1, -1.5, 180, -90, 1e21, 1e-7, 123456789.123456789, math.MaxFloat64, -math.MaxFloat64,
	math.SmallestNonzeroFloat64, math.NaN(), math.Inf(1), math.Inf(-1), 0.1, 1e300, -1e-300}

func c17Coord(nonFinite bool) CoordGen {
	return func(r *rand.Rand) geometry.Point {
		one := func() float64 {
			if r.Intn(3) == 0 {
				for {
					v := c17Floats[r.Intn(len(c17Floats))]
					if nonFinite || !(math.IsNaN(v) || math.IsInf(v, 0)) {
						return v
					}
				}
			}
			if r.Intn(2) == 0 {
				return float64(r.Intn(361) - 180)
			}
			return (r.Float64()*2 - 1) * 180
		}
		return geometry.Point{X: one(), Y: one()}
	}
}

func geoType(kind string) string {
	switch kind {
	case "SimplePoint":
		return "Point"
	case "Rect":
		return "Polygon"
	case "Circle":
		return "Feature"
	}
	return kind
}

var coordDepth = map[string]int{"Point": 1, "MultiPoint": 2, "LineString": 2, "MultiLineString": 3, "Polygon": 3, "MultiPolygon": 4}

// checkDepth: every number/null sits exactly at depth want; arrays may be empty.
func checkDepth(v interface{}, depth, want int) error {
	switch x := v.(type) {
	case []interface{}:
		if depth == want {
			return fmt.Errorf("array at position depth %d (nesting too deep)", depth+1)
		}
		for _, e := range x {
			if err := checkDepth(e, depth+1, want); err != nil {
				return err
			}
		}
		return nil
	case json.Number, nil:
		if depth != want {
			return fmt.Errorf("ordinate at depth %d, want %d", depth, want)
		}
		return nil
	}
	return fmt.Errorf("unexpected %T inside coordinates", v)
}

// flatten collects the ordinates of a decoded coordinates value in order.
func flatten(v interface{}, out []interface{}) []interface{} {
	if a, ok := v.([]interface{}); ok {
		for _, e := range a {
			out = flatten(e, out)
		}
		return out
	}
	return append(out, v)
}

// checkDoc validates a decoded GeoJSON value structurally.
func checkDoc(v interface{}) error {
	m, ok := v.(map[string]interface{})
	if !ok {
		return fmt.Errorf("not an object")
	}
	t, _ := m["type"].(string)
	switch t {
	case "Point", "MultiPoint", "LineString", "MultiLineString", "Polygon", "MultiPolygon":
		co, ok := m["coordinates"].([]interface{})
		if !ok {
			return fmt.Errorf("%s without coordinates array", t)
		}
		return checkDepth(co, 0, coordDepth[t])
	case "Feature":
		if _, ok := m["properties"]; !ok {
			return fmt.Errorf("Feature without properties")
		}
		g, ok := m["geometry"]
		if !ok {
			return fmt.Errorf("Feature without geometry")
		}
		return checkDoc(g)
	case "GeometryCollection", "FeatureCollection":
		key := "geometries"
		if t == "FeatureCollection" {
			key = "features"
		}
		arr, ok := m[key].([]interface{})
		if !ok {
			return fmt.Errorf("%s without %s array", t, key)
		}
		for _, e := range arr {
			if err := checkDoc(e); err != nil {
				return err
			}
		}
		return nil
	}
	return fmt.Errorf("type %q", t)
}

func decodeDoc(b []byte) (interface{}, error) {
	d := json.NewDecoder(bytes.NewReader(b))
	d.UseNumber()
	var v interface{}
	if err := d.Decode(&v); err != nil {
		return nil, err
	}
	if d.More() {
		return nil, fmt.Errorf("trailing data")
	}
	return v, nil
}

// expectedOrdinates lists, for leaf nodes, the x,y sequence the output must carry.
func expectedOrdinates(n *Node) ([]float64, bool) {
	var out []float64
	switch n.Kind {
	case "Point", "SimplePoint", "LineString", "Polygon":
		if n.Kind == "Polygon" && n.Empty() {
			return nil, true
		}
		for _, r := range n.Rings {
			for _, p := range r {
				out = append(out, p.X, p.Y)
			}
		}
		return out, true
	case "Rect":
		mn, mx := n.Rings[0][0], n.Rings[0][1]
		return []float64{mn.X, mn.Y, mx.X, mn.Y, mx.X, mx.Y, mn.X, mx.Y, mn.X, mn.Y}, true
	case "MultiPoint", "MultiLineString", "MultiPolygon":
		for _, c := range n.Children {
			e, _ := expectedOrdinates(c)
			out = append(out, e...)
		}
		return out, true
	}
	return nil, false
}

func c17Check(c *mon.Ctx, n *Node, o geojson.Object, members string, root interface{}) {
	mk := func(what, out, detail string) c17Case {
		if len(out) > 1500 {
			out = out[:1500] + "..."
		}
		return c17Case{Object: root, Members: members, What: what, Output: out, Detail: detail}
	}
	c.Eval()
	c.Count("kind_" + n.Kind)
	j := o.JSON()
	if s := o.String(); s != j {
		c.Violation("string", "String() differs from JSON()", mk("String", s, j))
	}
	mb, err := o.MarshalJSON()
	if err != nil || string(mb) != j {
		c.Violation("marshal", "MarshalJSON() differs from JSON()", mk("MarshalJSON", string(mb), fmt.Sprint(err)))
	}
	if a := o.AppendJSON(nil); string(a) != j {
		c.Violation("append-nil", "AppendJSON(nil) differs from JSON()", mk("AppendJSON(nil)", string(a), j))
	}
	// append to a prefix with spare capacity and an alias
	r := c.Rng
	plen, spare := r.Intn(40), r.Intn(3)*r.Intn(len(j)+64)
	if r.Intn(4) == 0 {
		// long prefixes, also with very little spare capacity
		plen, spare = 1000+r.Intn(40000), []int{0, 1, 17, 300}[r.Intn(4)]
	}
	backing := make([]byte, plen+spare)
	for i := range backing {
		backing[i] = byte('a' + i%26)
	}
	if plen > 0 && r.Intn(2) == 0 {
		copy(backing, `{"x":[`)
	}
	prefix := backing[:plen]
	alias := backing[:plen:plen]
	saved := append([]byte{}, prefix...)
	res := o.AppendJSON(prefix)
	if !bytes.Equal(alias, saved) || !bytes.Equal(prefix, saved) {
		c.Violation("append-prefix-modified", "AppendJSON changed the visible contents of the prefix", mk("AppendJSON(prefix)", string(alias), string(saved)))
	}
	if len(res) != plen+len(j) || !bytes.Equal(res[:plen], saved) || string(res[plen:]) != j {
		c.Violation("append", "AppendJSON(prefix) is not prefix followed by the JSON bytes", mk("AppendJSON(prefix)", string(res), fmt.Sprintf("prefix len %d spare %d", plen, spare)))
	}
	if spare > 0 {
		c.Count("appends_into_spare_capacity")
	}
	// well-formedness
	if !json.Valid([]byte(j)) {
		c.Violation("invalid-json", "output is not valid JSON", mk("JSON", j, ""))
		return
	}
	for _, tok := range []string{"NaN", "Inf", "inf", "nan"} {
		// tokens can legitimately occur inside member strings; only flag them outside strings
		if strings.Contains(stripStrings(j), tok) {
			c.Violation("nonfinite-token", "bare non-finite token in the output", mk("JSON", j, tok))
		}
	}
	v, err := decodeDoc([]byte(j))
	if err != nil {
		c.Violation("invalid-json", "output does not decode as one JSON value: "+err.Error(), mk("JSON", j, ""))
		return
	}
	m, _ := v.(map[string]interface{})
	if m == nil {
		c.Violation("not-object", "output is not a JSON object", mk("JSON", j, ""))
		return
	}
	if t, _ := m["type"].(string); t != geoType(n.Kind) {
		c.Violation("type", "type member does not name the object's GeoJSON type", mk("JSON", j, fmt.Sprintf("type=%q want %q", t, geoType(n.Kind))))
		return
	}
	if err := checkDoc(v); err != nil {
		c.Violation("structure", "structure: "+err.Error(), mk("JSON", j, ""))
		return
	}
	// ordinate values of leaf/multi geometries: finite ones bit-exact, others null
	if exp, ok := expectedOrdinates(n); ok {
		got := flatten(m["coordinates"], nil)
		// PointZ adds ordinates; compare only when lengths match
		if len(got) == len(exp) {
			for i, e := range exp {
				if math.IsNaN(e) || math.IsInf(e, 0) {
					c.Count("nonfinite_ordinates")
					if got[i] != nil {
						c.Violation("nonfinite-not-null", "a non-finite ordinate is not written as null", mk("JSON", j, fmt.Sprintf("ordinate %d", i)))
						break
					}
					continue
				}
				num, _ := got[i].(json.Number)
				f, err := strconv.ParseFloat(string(num), 64)
				if err != nil || math.Float64bits(f) != math.Float64bits(e) {
					if !(f == 0 && e == 0) {
						c.Violation("ordinate", "an ordinate does not round-trip bit-exactly", mk("JSON", j, fmt.Sprintf("ordinate %d: %v vs %v", i, got[i], e)))
						break
					}
				}
			}
		} else {
			c.Violation("ordinate-count", "number of ordinates differs from the model", mk("JSON", j, fmt.Sprintf("%d vs %d", len(got), len(exp))))
		}
	}
	if n.Kind == "Circle" {
		props, _ := m["properties"].(map[string]interface{})
		if props == nil || props["type"] != "Circle" || props["radius_units"] != "m" {
			c.Violation("circle-form", "Circle does not serialise to the Feature/Point/properties{type:Circle,radius,radius_units:m} form", mk("JSON", j, ""))
		}
	}
}

func stripStrings(s string) string {
	var b strings.Builder
	in := false
	for i := 0; i < len(s); i++ {
		ch := s[i]
		if in {
			if ch == '\\' {
				i++
			} else if ch == '"' {
				in = false
			}
			continue
		}
		if ch == '"' {
			in = true
			continue
		}
		b.WriteByte(ch)
	}
	return b.String()
}

// c17Sequence serialises a fresh object for the first time by appending into
// a caller-owned buffer, overwrites that buffer, and serialises again in
// several orders: every later result must equal the first one.
func c17Sequence(c *mon.Ctx, n *Node, fresh func() geojson.Object) {
	o := fresh()
	r := c.Rng
	plen, spare := r.Intn(16), 64+r.Intn(4096)
	buf := make([]byte, plen, plen+spare)
	for i := range buf {
		buf[i] = '.'
	}
	res := o.AppendJSON(buf)
	first := string(res[plen:])
	for i := range res {
		res[i] = '#'
	}
	full := res[:cap(res)]
	for i := range full {
		full[i] = '#'
	}
	c.Eval()
	c.Count("append_first_sequences")
	mk := func(what, got string) c17Case {
		return c17Case{Object: n.Describe(), What: what, Output: truncate(got, 600), Detail: "first serialisation (AppendJSON into a caller buffer that was then overwritten): " + truncate(first, 300)}
	}
	order := r.Perm(4)
	for _, k := range order {
		var got string
		switch k {
		case 0:
			got = o.JSON()
		case 1:
			got = o.String()
		case 2:
			b, _ := o.MarshalJSON()
			got = string(b)
		default:
			got = string(o.AppendJSON(make([]byte, 0, r.Intn(64))))
		}
		if got != first {
			c.Violation("serialisation-changes", "a later serialisation differs from the object's first one after the caller reused its buffer", mk([]string{"JSON", "String", "MarshalJSON", "AppendJSON"}[k], got))
			return
		}
	}
	// results handed out earlier stay intact while other objects are serialised
	kept1, _ := o.MarshalJSON()
	kept2 := o.AppendJSON(nil)
	kept3 := o.AppendJSON(make([]byte, 3, 4096))[3:]
	other := fresh()
	for k := 0; k < 3; k++ {
		_ = other.JSON()
		_ = other.String()
		ob, _ := other.MarshalJSON()
		for i := range ob {
			ob[i] = '!'
		}
	}
	for k, kept := range [][]byte{kept1, kept2, kept3} {
		if string(kept) != first {
			c.Violation("retained-result-overwritten", "bytes returned by an earlier serialisation changed while another object was being serialised", mk([]string{"MarshalJSON", "AppendJSON(nil)", "AppendJSON(buf)"}[k]+" retained", string(kept)))
			return
		}
	}
	c.Count("retained_results_checked")
	// a second object's output must not be disturbed by the first one's buffers either
	o2 := fresh()
	if j := o2.JSON(); j != first {
		c.Violation("serialisation-changes", "an identical fresh object serialises differently", mk("JSON of an identical object", j))
	}
}

// c17Tree checks the root and all nested objects.
func c17Tree(c *mon.Ctx, root *Node, o geojson.Object) {
	desc := root.Describe()
	var rec func(n *Node, o geojson.Object)
	rec = func(n *Node, o geojson.Object) {
		c17Check(c, n, o, n.Members, desc)
		switch v := o.(type) {
		case *geojson.Feature:
			rec(n.Children[0], v.Base())
		case geojson.Collection:
			ch := v.Children()
			for i := range ch {
				if i < len(n.Children) {
					rec(n.Children[i], ch[i])
				}
			}
		}
	}
	rec(root, o)
}

var c17MemberKeys = []string{"id", "properties", "bbox", "foo", "a b", "\\u0069d", "x\\\"y", "crs", "Feature", "featured"}

func randJSONValue(r *rand.Rand, depth int) string {
	switch r.Intn(8) {
	case 0:
		return "null"
	case 1:
		return []string{"true", "false"}[r.Intn(2)]
	case 2:
		return []string{"0", "-1", "1.5e3", "1E-2", "12345678901234567890", "-0"}[r.Intn(6)]
	case 3:
		return []string{`""`, `"NaN"`, `"a\"b"`, `"é"`, `"Inf,"`, `"}"`}[r.Intn(6)]
	case 4, 5:
		if depth > 2 {
			return "[]"
		}
		n := r.Intn(3)
		var parts []string
		for i := 0; i < n; i++ {
			parts = append(parts, randJSONValue(r, depth+1))
		}
		return "[" + strings.Join(parts, ws(r)+","+ws(r)) + "]"
	default:
		if depth > 2 {
			return "{}"
		}
		return randJSONObject(r, depth+1, []string{"a", "feature", "type", "k"})
	}
}

func ws(r *rand.Rand) string {
	return []string{"", "", " ", "\n", "\t ", "\r\n"}[r.Intn(6)]
}

func randJSONObject(r *rand.Rand, depth int, keys []string) string {
	n := r.Intn(4)
	var parts []string
	for i := 0; i < n; i++ {
		k := keys[r.Intn(len(keys))]
		parts = append(parts, ws(r)+`"`+k+`"`+ws(r)+":"+ws(r)+randJSONValue(r, depth))
	}
	return "{" + strings.Join(parts, ",") + ws(r) + "}"
}

var c17OddMembers = []string{"", " ", "{}", "{ }", "{\n}", "\t{}\n", `{"feature":1}`, `{"feature":{"a":1}}`, `{ "feature" : [1,2] }`, `[1,2]`, `"str"`, `123`, `nul`, `{"a":}`, `{"a":1`, `}`, `{"id":1}{"id":2}`, `{"properties":{"feature":1}}`,
	`{"properties":null}`, `{"id":"NaN"}`, `{"feature":1,"id":2}`, `{"id":2,"feature":1}`, `{"a":1,"feature":1,"b":2}`, "\xff", `{"k":"\ud800"}`}

func c17Run(c *mon.Ctx) {
	n := c.Pick(400000, 16000000)
	for i := 0; i < n; i++ {
		if !c.Mine(i) {
			continue
		}
		r := c.SubRng("obj", i)
		o := &TreeOpts{Coord: c17Coord(i%3 != 0), MaxDepth: 1 + r.Intn(3), MaxKids: 1 + r.Intn(4), MaxPts: 2 + r.Intn(6), Empties: true}
		if i%32 == 5 {
			o.MaxPts = 64 + r.Intn(120) // large geometries
			o.MaxKids = 2
		}
		root := randTree(r, o, 0)
		// decorate features with member strings
		root.Walk(func(m *Node) {
			if m.Kind != "Feature" {
				return
			}
			switch r.Intn(3) {
			case 0:
				m.Members = c17OddMembers[r.Intn(len(c17OddMembers))]
			case 1:
				m.Members = ws(r) + randJSONObject(r, 0, c17MemberKeys) + ws(r)
			}
			if m.Members != "" {
				c.Count("features_with_member_text")
			}
		})
		c.SetCase(func() interface{} { return map[string]interface{}{"object": root.Describe()} })
		c.Try(func() {
			c17Tree(c, root, root.Build(nil))
			h := mon.NewH().S(root.Kind).I(int64(i))
			c.NonTrivial(uint64(h))
		})
		if i%2 == 0 {
			c.Try(func() { c17Sequence(c, root, func() geojson.Object { return root.Build(nil) }) })
		}
		if i < 48 && i%16 == c.Shard && c.WantSample() {
			c.Sample(map[string]interface{}{"object": root.Describe(), "json": truncate(root.Build(nil).JSON(), 300)})
		}
		// extra constructors: NewPointZ, NewCircle, parsed objects with members
		if i%4 == 0 {
			p := o.Coord(r)
			z := c17Floats[r.Intn(len(c17Floats))]
			pz := geojson.NewPointZ(p, z)
			c.SetCase(func() interface{} { return map[string]interface{}{"NewPointZ": []float64{p.X, p.Y, z}} })
			c.Try(func() {
				nz := nPoint(p)
				// three ordinates: structural checks only
				j := pz.JSON()
				c.Eval()
				if !json.Valid([]byte(j)) || pz.String() != j || string(pz.AppendJSON(nil)) != j {
					c.Violation("pointz", "NewPointZ serialisation", c17Case{Object: nz.Describe(), Output: j})
				}
				v, err := decodeDoc([]byte(j))
				if err == nil {
					err = checkDoc(v)
				}
				if err != nil {
					c.Violation("pointz", "NewPointZ: "+err.Error(), c17Case{Object: nz.Describe(), Output: j})
				}
				c.Count("pointz")
			})
			meters := []float64{0, 1, -5, 1000.5, math.NaN(), math.Inf(1), 1e9, 5e7}[r.Intn(8)]
			steps := []int{-1, 0, 3, 4, 64, 100, 4096}[r.Intn(7)]
			if math.IsInf(meters, 0) || math.IsNaN(meters) || math.IsNaN(p.X) || math.IsNaN(p.Y) || math.IsInf(p.X, 0) || math.IsInf(p.Y, 0) {
				steps = 4 // keep the polygon approximation out of play for non-finite input
			}
			cn := nCircle(p, meters, steps)
			c.SetCase(func() interface{} { return cn.Describe() })
			c.Try(func() { c17Check(c, cn, cn.Build(nil), "", cn.Describe()) })
		}
		if i%3 == 0 {
			// grammar documents: 2-4-D and mixed-dimension positions, null ordinates, foreign members
			do := gen.DefaultDocOpts()
			do.MaxDepth = 1 + r.Intn(3)
			do.LongFirst = false
			do.Overflow = i%2 == 0
			txt := gen.Render(r, gen.GenDoc(r, do, 0), false, false)
			c.SetCase(func() interface{} { return map[string]interface{}{"text": txt} })
			c.Try(func() {
				obj, err := geojson.Parse(txt, nil)
				if err != nil {
					return
				}
				c.Count("grammar_documents_serialised")
				j := obj.JSON()
				c.Eval()
				if !json.Valid([]byte(j)) || obj.String() != j || string(obj.AppendJSON([]byte("xy"))) != "xy"+j {
					c.Violation("parsed", "parsed grammar document: serialisations disagree or are not valid JSON", c17Case{Object: truncate(txt, 800), Output: truncate(j, 800)})
					return
				}
				v, err := decodeDoc([]byte(j))
				if err == nil {
					err = checkDoc(v)
				}
				if err != nil {
					c.Violation("parsed", "parsed grammar document: "+err.Error(), c17Case{Object: truncate(txt, 800), Output: truncate(j, 800)})
				}
			})
		}
		if i%6 == 0 && root.Parseable() {
			txt := root.JSON()
			// splice foreign members into the top-level object text
			mem := randJSONObject(r, 0, c17MemberKeys)
			if len(mem) > 2 {
				txt = txt[:len(txt)-1] + "," + mem[1:]
			}
			c.SetCase(func() interface{} { return map[string]interface{}{"text": txt} })
			c.Try(func() {
				obj, err := geojson.Parse(txt, nil)
				if err != nil {
					return
				}
				c.Count("parsed_with_members")
				j := obj.JSON()
				c.Eval()
				if !json.Valid([]byte(j)) || obj.String() != j || string(obj.AppendJSON([]byte("xy"))) != "xy"+j {
					c.Violation("parsed", "parsed object serialisation", c17Case{Object: txt, Output: j})
				}
				v, err := decodeDoc([]byte(j))
				if err == nil {
					err = checkDoc(v)
				}
				if err != nil {
					c.Violation("parsed", "parsed object: "+err.Error(), c17Case{Object: txt, Output: j})
				}
			})
		}
	}
}

func truncate(s string, n int) string {
	if len(s) > n {
		return s[:n] + "..."
	}
	return s
}

func init() {
	must := []string{"retained_results_checked", "grammar_documents_serialised", "append_first_sequences", "appends_into_spare_capacity", "nonfinite_ordinates", "features_with_member_text", "pointz", "kind_Circle", "parsed_with_members"}
	for _, k := range allKinds {
		must = append(must, "kind_"+k)
	}
	mon.Register(&mon.Prop{
		ID:          "C17",
		Rule:        "random object trees of all kinds built through every public constructor (NewPoint, NewPointZ, NewSimplePoint, NewLineString, NewPolygon, NewRect, NewCircle, NewMulti*, NewGeometryCollection, NewFeatureCollection, NewFeature) with ordinates from {finite classes, NaN, +-Inf, -0, subnormal, +-MaxFloat64}, Feature member strings from {random JSON objects with odd keys/whitespace/nesting, {}, { }, whitespace, arrays, strings, invalid JSON, a 'feature' key at top level or nested}, plus parsed objects with foreign members; every nested object is judged; AppendJSON is driven with random prefixes, spare capacities and an aliasing slice. Non-trivial = distinct generated tree.",
		Assumptions: []string{"member strings stay inside the property's domain: JSON object text without the reserved keys, or arbitrary non-object text", "decoded with encoding/json (UseNumber) as the reference JSON reader"},
		Run:         c17Run,
		MustSee:     must,
	})
}
