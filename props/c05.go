package props

import (
	"fmt"
	"math"
	"math/rand"
	"strings"

	"github.com/tidwall/geojson"
	"github.com/tidwall/geojson/geometry"

	"verif/internal/gen"
	"verif/internal/mon"
)

// C05: every operation terminates normally on every input.

type c05Case struct {
	Family string      `json:"family"`
	A      interface{} `json:"receiver,omitempty"`
	B      interface{} `json:"argument,omitempty"`
	Op     string      `json:"op,omitempty"`
	Text   string      `json:"text,omitempty"`
	Opts   string      `json:"options,omitempty"`
}

// degenerate constructor-built objects
func c05Degenerates() []struct {
	Name string
	O    geojson.Object
} {
	pt := geometry.Point{X: 1, Y: 2}
	nan := math.NaN()
	var out []struct {
		Name string
		O    geojson.Object
	}
	add := func(n string, o geojson.Object) {
		out = append(out, struct {
			Name string
			O    geojson.Object
		}{n, o})
	}
	add("NewPolygon(nil)", geojson.NewPolygon(nil))
	add("NewPolygon(&Poly{})", geojson.NewPolygon(&geometry.Poly{}))
	add("NewPolygon(NewPoly(nil))", geojson.NewPolygon(geometry.NewPoly(nil, nil, nil)))
	add("NewPolygon(2-point ring)", geojson.NewPolygon(geometry.NewPoly([]geometry.Point{{X: 0, Y: 0}, {X: 1, Y: 1}}, nil, nil)))
	add("NewPolygon(ring + empty hole)", geojson.NewPolygon(geometry.NewPoly([]geometry.Point{{X: 0, Y: 0}, {X: 4, Y: 0}, {X: 4, Y: 4}, {X: 0, Y: 0}}, [][]geometry.Point{{}}, nil)))
	add("NewPolygon(Rect exterior)", geojson.NewPolygon(&geometry.Poly{Exterior: geometry.Rect{Min: pt, Max: geometry.Point{X: 3, Y: 4}}}))
	add("NewLineString(empty)", geojson.NewLineString(geometry.NewLine(nil, nil)))
	add("NewLineString(1 point)", geojson.NewLineString(geometry.NewLine([]geometry.Point{pt}, nil)))
	add("NewLineString(all equal)", geojson.NewLineString(geometry.NewLine([]geometry.Point{pt, pt, pt}, nil)))
	add("NewMultiPoint(nil)", geojson.NewMultiPoint(nil))
	add("NewMultiLineString(nil)", geojson.NewMultiLineString(nil))
	add("NewMultiLineString([empty])", geojson.NewMultiLineString([]*geometry.Line{geometry.NewLine(nil, nil)}))
	add("NewMultiPolygon(nil)", geojson.NewMultiPolygon(nil))
	add("NewMultiPolygon([nil])", geojson.NewMultiPolygon([]*geometry.Poly{nil}))
	add("NewMultiPolygon([&Poly{}])", geojson.NewMultiPolygon([]*geometry.Poly{{}}))
	add("NewGeometryCollection(nil)", geojson.NewGeometryCollection(nil))
	add("NewGeometryCollection([empty GC])", geojson.NewGeometryCollection([]geojson.Object{geojson.NewGeometryCollection(nil), geojson.NewMultiPoint(nil)}))
	add("NewFeatureCollection(nil)", geojson.NewFeatureCollection(nil))
	add("NewFeature(empty GC)", geojson.NewFeature(geojson.NewGeometryCollection(nil), ""))
	add("NewFeature(Feature(Point))", geojson.NewFeature(geojson.NewFeature(geojson.NewPoint(pt), `{"id":1}`), "x"))
	add("NewFeature(NewPolygon(nil))", geojson.NewFeature(geojson.NewPolygon(nil), ""))
	add("NewCircle(r=0)", geojson.NewCircle(pt, 0, 64))
	add("NewCircle(r<0)", geojson.NewCircle(pt, -5, 64))
	add("NewCircle(r=NaN)", geojson.NewCircle(pt, nan, 4))
	add("NewCircle(steps=0)", geojson.NewCircle(pt, 1000, 0))
	add("NewCircle(at pole)", geojson.NewCircle(geometry.Point{X: 0, Y: 90}, 100000, 16))
	add("NewCircle(huge)", geojson.NewCircle(pt, 3e7, 8))
	add("NewRect(degenerate)", geojson.NewRect(geometry.Rect{Min: pt, Max: pt}))
	add("NewRect(inverted)", geojson.NewRect(geometry.Rect{Min: geometry.Point{X: 5, Y: 5}, Max: pt}))
	add("NewPointZ", geojson.NewPointZ(pt, 7))
	add("NewSimplePoint", geojson.NewSimplePoint(pt))
	add("NewPoint(far)", geojson.NewPoint(geometry.Point{X: 1e300, Y: -1e300}))
	return out
}

func c05Exercise(c *mon.Ctx, family string, da, db interface{}, a, b geojson.Object) {
	for _, op := range objOps {
		c.SetCase(func() interface{} { return c05Case{Family: family, A: da, B: db, Op: op.Name} })
		c.Try(func() { op.F(a, b) })
		c.Eval()
	}
}

// adversarial line pairs for the Line.ContainsLine walk
func c05LinePair(r *rand.Rand) (*Node, *Node) {
	n := 2 + r.Intn(6)
	pts := make([]geometry.Point, n)
	for i := range pts {
		pts[i] = geometry.Point{X: float64(r.Intn(4)), Y: float64(r.Intn(3))}
		if i > 0 && r.Intn(4) == 0 {
			pts[i] = pts[i-1]
		}
		if i > 1 && r.Intn(4) == 0 {
			pts[i] = pts[i-2] // back-tracking
		}
	}
	m := 2 + r.Intn(6)
	other := make([]geometry.Point, m)
	for i := range other {
		switch r.Intn(4) {
		case 0:
			other[i] = pts[r.Intn(n)]
		case 1:
			p, q := pts[r.Intn(n)], pts[r.Intn(n)]
			other[i] = geometry.Point{X: (p.X + q.X) / 2, Y: (p.Y + q.Y) / 2}
		default:
			other[i] = geometry.Point{X: float64(r.Intn(4)), Y: float64(r.Intn(3))}
		}
		if i > 0 && r.Intn(5) == 0 {
			other[i] = other[i-1]
		}
	}
	return nLine(pts), nLine(other)
}

var c05OptSets = func() []*geojson.ParseOptions {
	var out []*geojson.ParseOptions
	out = append(out, nil)
	for mask := 0; mask < 16; mask++ {
		o := baseOpts()
		o.RequireValid = mask&1 != 0
		o.AllowSimplePoints = mask&2 != 0
		o.DisableCircleType = mask&4 != 0
		o.AllowRects = mask&8 != 0
		o.IndexChildren = []int{0, 1, 64}[mask%3]
		o.IndexGeometry = []int{64, 0, 1, 3}[mask%4]
		o.IndexGeometryKind = geometry.IndexKind(mask % 3)
		oo := o
		out = append(out, &oo)
	}
	return out
}()

func c05Parse(c *mon.Ctx, family, text string, oi int) geojson.Object {
	opts := c05OptSets[oi%len(c05OptSets)]
	var obj geojson.Object
	c.SetCase(func() interface{} { return c05Case{Family: family, Text: truncate(text, 2000), Opts: optString(opts)} })
	c.Try(func() {
		o, err := geojson.Parse(text, opts)
		c.Eval()
		if (o == nil) == (err == nil) {
			c.Violation("object-xor-error", fmt.Sprintf("Parse returned obj=%v err=%v", o != nil, err), nil)
			return
		}
		obj = o
		if o != nil {
			c.Count("parse_accepted")
		} else {
			c.Count("parse_rejected")
		}
		if (len(text)+oi)%3 == 0 {
			// the same text again under the same options, straight away: Parse must return, and with the same outcome
			// (added after seeded change C05-p, a last-document cache that leaked its lock when a rejected text came twice)
			o2, err2 := geojson.Parse(text, opts)
			c.Count("parse_repeated")
			if (o2 == nil) == (err2 == nil) {
				c.Violation("object-xor-error", fmt.Sprintf("second Parse of the same text returned obj=%v err=%v", o2 != nil, err2), nil)
			} else if (o2 == nil) != (o == nil) {
				c.Violation("parse-not-repeatable", fmt.Sprintf("the same text under the same options was accepted=%v first and accepted=%v the second time", o != nil, o2 != nil), nil)
			}
		}
	})
	return obj
}

func c05Run(c *mon.Ctx) {
	item := 0
	// (a) degenerate constructor objects, every ordered pair, every method
	degs := c05Degenerates()
	for i, a := range degs {
		for j, b := range degs {
			item++
			if !c.Mine(item) {
				continue
			}
			c.Journal(c05Case{Family: "degenerate constructors", A: a.Name, B: b.Name})
			c05Exercise(c, "degenerate constructors", a.Name, b.Name, a.O, b.O)
			c.NonTrivial(uint64(mon.NewH().I(int64(i)).I(int64(j))))
		}
	}
	c.Count("degenerate_pairs_done")
	// (b) random object trees of all kinds (empties, nested) against each other
	nObj := c.Pick(400000, 800000)
	for i := 0; i < nObj; i++ {
		item++
		if !c.Mine(item) {
			continue
		}
		r := c.SubRng("trees", i)
		if i%256 == 0 || c.Shard == i%16 {
			c.Journal(c05Case{Family: "random trees", A: fmt.Sprintf("case %d of seed %d", i, c.Seed)})
		}
		o := &TreeOpts{Coord: c11Coord(i % 4), MaxDepth: 1 + r.Intn(3), MaxKids: 1 + r.Intn(4), MaxPts: 2 + r.Intn(6), Empties: true}
		if i%40 == 0 {
			o.MaxPts = 80
		}
		var na, nb *Node
		if i%3 == 0 {
			na, nb = c05LinePair(r)
		} else {
			na = randTreeKind(r, o, 0, allKinds[i%len(allKinds)])
			nb = randTreeKind(r, o, 0, allKinds[(i/len(allKinds))%len(allKinds)])
		}
		var a, b geojson.Object
		c.SetCase(func() interface{} { return c05Case{Family: "build", A: na.Describe(), B: nb.Describe()} })
		if !c.Try(func() {
			var ic *geometry.IndexOptions
			if i%2 == 0 {
				ic = &geometry.IndexOptions{Kind: geometry.IndexKind(1 + i%2), MinPoints: 1 + i%3}
			}
			a, b = na.Build(ic), nb.Build(ic)
		}) {
			continue
		}
		if i%5 == 0 {
			p := o.Coord(r)
			a = geojson.NewCircle(p, []float64{0, 1, 5000, 1e6, -1}[r.Intn(5)], []int{0, 3, 16, 64}[r.Intn(4)])
			na = nCircle(p, 0, 0)
		}
		c05Exercise(c, "random trees", na.Describe(), nb.Describe(), a, b)
		c05Exercise(c, "random trees", nb.Describe(), na.Describe(), b, a)
		c.Count("pair " + na.Kind + ">" + nb.Kind)
		c.NonTrivial(uint64(mon.NewH().S(na.Kind).S(nb.Kind).I(int64(i))))
		if c.WantSample() {
			c.Sample(c05Case{Family: "random trees", A: na.Describe(), B: nb.Describe(), Op: fmt.Sprintf("all %d operations, both directions", len(objOps))})
		}
	}
	// (c) Parse on grammar documents, their mutants, truncations, random bytes
	nDoc := c.Pick(250000, 500000)
	var pool []geojson.Object
	for i := 0; i < nDoc; i++ {
		item++
		if !c.Mine(item) {
			continue
		}
		r := c.SubRng("docs", i)
		if i%256 == 0 || c.Shard == i%16 {
			c.Journal(c05Case{Family: "parse", A: fmt.Sprintf("document %d of seed %d", i, c.Seed)})
		}
		o := gen.DefaultDocOpts()
		o.MaxDepth = 1 + r.Intn(5)
		o.OutOfRange = i%3 == 0
		tree := gen.GenDoc(r, o, 0)
		text := gen.Render(r, tree, i%2 == 0, i%3 == 0)
		if obj := c05Parse(c, "grammar", text, i); obj != nil && len(pool) < 64 {
			pool = append(pool, obj)
		} else if obj != nil {
			pool[r.Intn(len(pool))] = obj
		}
		for mi, name := range gen.MutationNames {
			if (i+mi)%4 != 0 {
				continue
			}
			if mt, ok := gen.Mutate(r, tree, name); ok {
				c05Parse(c, "mutant:"+name, gen.Render(r, mt, false, false), i+mi)
			}
		}
		for ti, name := range gen.TextMutations {
			if (i+ti)%3 != 0 {
				continue
			}
			c05Parse(c, "text:"+name, gen.MutateText(r, text, name), i+ti)
		}
		// parsed objects against each other through every method
		if i%8 == 0 && len(pool) >= 2 {
			a, b := pool[r.Intn(len(pool))], pool[r.Intn(len(pool))]
			c05Exercise(c, "parsed objects", truncate(a.JSON(), 400), truncate(b.JSON(), 400), a, b)
			c.Count("parsed_pairs_exercised")
		}
	}
	// index-hostile series: coincident vertices, clusters, collinear runs, built
	// through Parse under the default options and through the constructors
	// with both index kinds; then every operation
	hostile := func(kind string, n int, r *rand.Rand) []geometry.Point {
		pts := make([]geometry.Point, n)
		base := geometry.Point{X: float64(r.Intn(7)) + 0.25, Y: float64(r.Intn(5)) - 1.75}
		for i := range pts {
			switch kind {
			case "all-equal":
				pts[i] = base
			case "two-values":
				pts[i] = geometry.Point{X: base.X + float64(i%2), Y: base.Y}
			case "mostly-equal":
				pts[i] = base
				if i%17 == 3 {
					pts[i] = geometry.Point{X: base.X + float64(r.Intn(100)), Y: base.Y - float64(r.Intn(100))}
				}
			case "collinear":
				pts[i] = geometry.Point{X: base.X + float64(i%5), Y: base.Y + float64(i%5)}
			default: // tiny cluster with huge outliers
				pts[i] = geometry.Point{X: base.X + float64(r.Intn(3))*1e-300, Y: base.Y}
				if i == n/2 {
					pts[i] = geometry.Point{X: 1e300, Y: -1e300}
				}
			}
		}
		return pts
	}
	hk := []string{"all-equal", "two-values", "mostly-equal", "collinear", "cluster-outlier"}
	for hi := 0; hi < len(hk)*6; hi++ {
		item++
		if !c.Mine(item) {
			continue
		}
		r := c.SubRng("hostile", hi)
		kind := hk[hi%len(hk)]
		n := []int{34, 40, 64, 80, 300, 2000}[hi/len(hk)]
		pts := hostile(kind, n, r)
		c.Journal(c05Case{Family: "index-hostile series", A: fmt.Sprintf("%s n=%d", kind, n)})
		var objs []geojson.Object
		c.SetCase(func() interface{} {
			return c05Case{Family: "index-hostile series (build)", A: fmt.Sprintf("%s n=%d first=%v", kind, n, pts[0])}
		})
		c.Try(func() {
			for _, ic := range []*geometry.IndexOptions{nil, {Kind: geometry.QuadTree, MinPoints: 1}, {Kind: geometry.RTree, MinPoints: 1}} {
				objs = append(objs, geojson.NewLineString(geometry.NewLine(pts, ic)), geojson.NewPolygon(geometry.NewPoly(append(append([]geometry.Point{}, pts...), pts[0]), nil, ic)))
			}
			ln := nLine(pts)
			if o, err := geojson.Parse(ln.JSON(), nil); err == nil {
				objs = append(objs, o)
			}
			pg := nPoly(append(append([]geometry.Point{}, pts...), pts[0]))
			if o, err := geojson.Parse(pg.JSON(), nil); err == nil {
				objs = append(objs, o)
			}
		})
		probe := geojson.NewPoint(pts[0])
		for _, o := range objs {
			c05Exercise(c, "index-hostile series", fmt.Sprintf("%s n=%d %T", kind, n, o), "Point(first vertex)", o, probe)
			c05Exercise(c, "index-hostile series", "Point(first vertex)", fmt.Sprintf("%s n=%d %T", kind, n, o), probe, o)
		}
		c.Count("hostile_series")
	}
	// truncation at every byte offset of a set of documents
	nTrunc := c.Pick(60, 600)
	for i := 0; i < nTrunc; i++ {
		item++
		if !c.Mine(item) {
			continue
		}
		r := c.SubRng("trunc", i)
		o := gen.DefaultDocOpts()
		o.MaxDepth = 1 + r.Intn(4)
		text := gen.Render(r, gen.GenDoc(r, o, 0), i%2 == 0, false)
		if len(text) > 3000 {
			text = text[:3000]
		}
		c.Journal(c05Case{Family: "truncations", Text: truncate(text, 3000)})
		for k := 0; k <= len(text); k++ {
			c05Parse(c, "truncation", text[:k], k)
		}
		c.Count("truncation_sets")
	}
	// deep nesting
	for di, depth := range []int{10, 50, 200, 1000, 2000, c.Pick(5000, 10000)} {
		item++
		if !c.Mine(item) {
			continue
		}
		for vi, mk := range []func(d int) string{
			func(d int) string {
				return strings.Repeat(`{"type":"Feature","geometry":`, d) + `{"type":"Point","coordinates":[1,2]}` + strings.Repeat(`,"properties":{}}`, d)
			},
			func(d int) string {
				return strings.Repeat(`{"type":"GeometryCollection","geometries":[`, d) + `{"type":"Point","coordinates":[1,2]}` + strings.Repeat(`]}`, d)
			},
			func(d int) string {
				return `{"type":"Point","coordinates":[1,2],"x":` + strings.Repeat(`[`, d) + strings.Repeat(`]`, d) + `}`
			},
			func(d int) string {
				return `{"type":"Point","coordinates":` + strings.Repeat(`[`, d) + `1` + strings.Repeat(`]`, d) + `}`
			},
			func(d int) string { return strings.Repeat(`{"type":"FeatureCollection","features":[`, d) },
		} {
			text := mk(depth)
			c.Journal(c05Case{Family: fmt.Sprintf("deep nesting variant %d depth %d", vi, depth)})
			obj := c05Parse(c, fmt.Sprintf("deep nesting %d", depth), text, di+vi)
			if obj != nil {
				c05Exercise(c, "deeply nested object", fmt.Sprintf("variant %d depth %d", vi, depth), "itself", obj, obj)
				c.Count("deep_objects_exercised")
			}
		}
	}
	c.Count("deep_nesting_done")
}

func init() {
	mon.Register(&mon.Prop{
		ID:          "C05",
		Rule:        "every operation of Object, Spatial, Collection, geometry.Geometry and Series (22 operation groups) on ordered pairs of: 33 degenerate constructor-built objects (NewPolygon(nil), empty and 1-point lines, 2-point rings, empty and nested-empty collections, zero/negative/NaN-radius circles, inverted rectangles ...), random object trees of all kinds with empties and special floats, adversarial line pairs for the Line.ContainsLine walk (shared vertices, back-tracking, repeated vertices), and parsed objects; Parse under 17 option combinations on grammar documents, every structural mutant class, byte-level corruptions, truncation at every byte offset of 60 (thorough 600) documents, and nesting depths 10..5000 (thorough 10000). Monitors: recover()-based panic monitor, step budget in the Line.ContainsLine walk (hook), Parse object-xor-error, a no-progress watchdog confirmed by an isolated re-run, and process-fatal events attributed through a journal. Non-trivial = distinct (receiver, argument) pair.",
		Assumptions: []string{"'never loops forever' is restated as bounded progress: the walk step budget 2(n+1)(m+1)+16 and a 90 s no-progress watchdog per worker, confirmed by an isolated re-run before it counts", "nil arguments are out of scope except where a constructor explicitly accepts nil", "the thorough tier runs the whole workload in a -race build (which implies checkptr for the unsafe conversions in the JSON dependency); a process-fatal report is attributed through the journal"},
		Run:         c05Run,
		MustSee:     []string{"degenerate_pairs_done", "parse_accepted", "parse_rejected", "parsed_pairs_exercised", "truncation_sets", "hostile_series", "deep_nesting_done", "deep_objects_exercised"},
		HangSecs:    90,
		// the thorough tier runs under -race, where parsing 10000 nested Features (quadratic in the depth) alone takes more than a minute
		HangSecsThorough: 900,
	})
}
