#!/bin/bash
# usage: tools/scratchcheck.sh <seed id> [check ids...]   (development aid)
# applies seeded/<seed id>/patch.diff to a scratch worktree of /repo (/tmp/vsc-<seed id>, removed afterwards) and runs the
# given quick checks against it through VERIF_REPO; /repo is not touched and nothing is recorded.
export GOFLAGS=-mod=mod GOPROXY=off GOSUMDB=off GOTOOLCHAIN=local
cd "$(dirname "$0")/.."
S=$1; shift
W=/tmp/vsc-$S
git -C /repo worktree add -q --detach $W HEAD || exit 3
git -C $W apply $PWD/seeded/$S/patch.diff || { echo "$S: patch does not apply"; git -C /repo worktree remove --force $W; exit 3; }
for id in "$@"; do
  OUT=$(VERIF_REPO=$W VERIF_SEED=${VERIF_SEED:-1} ./check.sh $id quick 2>&1); RC=$?
  echo "$S CHECK(scratch) $id exit=$RC $(echo "$OUT" | grep -c '^VIOLATION') violation lines; $(echo "$OUT" | tail -1 | cut -c1-150)"
  echo "$OUT" | grep '^VIOLATION' | head -2 | cut -c1-240
done
git -C /repo worktree remove --force $W
