// Package mon is the monitor runtime: worker context (counters, current-case
// tracking, panic and hang watchdogs), known-findings matching, the driver
// that forks workers and folds their logs into evidence and verdict lines.
package mon

import (
	"encoding/json"
	"fmt"
	"hash/fnv"
	"math/rand"
	"os"
	"path/filepath"
	"runtime/debug"
	"sort"
	"strings"
	"sync"
	"sync/atomic"
	"time"
)

// Prop is one registered property check.
type Prop struct {
	ID          string
	Level       string // evidence level, "exploration" unless stated
	Rule        string // how cases are generated and what is non-trivial
	Assumptions []string
	// Exhaustive reports whether the tier enumerates a finite space completely.
	Exhaustive func(tier string) bool
	// Run executes shard c.Shard of c.NShards.
	Run func(c *Ctx)
	// MustSee lists counters that have to be non-zero for the run to count
	// (otherwise the run is a harness error: the monitor observed nothing).
	MustSee []string
	// Procs overrides the number of worker processes (0 = default 16).
	Procs int
	// Race: the worker binary must be the -race build.
	Race bool
	// HangSecs overrides the no-progress watchdog (0 = default).
	HangSecs int
	// HangSecsThorough overrides it for the thorough tier (0 = HangSecs).
	HangSecsThorough int
	// Replay re-executes a recorded case; returns true when the violation
	// reproduces.
	Replay func(kind string, c json.RawMessage) (bool, string)
	// Post lets a property inspect the merged result in the driver (e.g.
	// coverage requirements); returned strings are harness errors.
	Post func(r *Result, tier string) []string
}

var registry = map[string]*Prop{}

// Register adds a property.
func Register(p *Prop) {
	if p.Level == "" {
		p.Level = "exploration"
	}
	registry[p.ID] = p
}

// Lookup finds a property.
func Lookup(id string) *Prop { return registry[id] }

// IDs lists registered properties.
func IDs() []string {
	var s []string
	for k := range registry {
		s = append(s, k)
	}
	sort.Strings(s)
	return s
}

// Violation is one recorded refutation.
type Violation struct {
	Kind   string          `json:"kind"`
	Detail string          `json:"detail"`
	Case   json.RawMessage `json:"case"`
}

// KnownHit accumulates observations of a listed known finding.
type KnownHit struct {
	Count  int64           `json:"count"`
	Sample json.RawMessage `json:"sample,omitempty"`
}

// Result is what a worker reports.
type Result struct {
	Evals        int64                `json:"evals"`
	Counters     map[string]int64     `json:"counters"`
	Distinct     []uint64             `json:"distinct,omitempty"`
	DistinctCap  bool                 `json:"distinct_capped,omitempty"`
	Violations   []Violation          `json:"violations,omitempty"`
	NViolations  int64                `json:"n_violations"`
	Known        map[string]*KnownHit `json:"known,omitempty"`
	Inconclusive map[string]int64     `json:"inconclusive,omitempty"`
	Samples      []json.RawMessage    `json:"samples,omitempty"`
	Done         bool                 `json:"done"`
}

const maxDistinctPerWorker = 400000
const maxViolationsKept = 60

// Ctx is the per-worker monitor context handed to property code.
type Ctx struct {
	Prop    string
	Tier    string
	Seed    int64
	Shard   int
	NShards int
	Rng     *rand.Rand
	OutDir  string

	mu       sync.Mutex
	res      Result
	distinct map[uint64]struct{}
	cur      atomic.Value // func() interface{}
	progress atomic.Int64
	known    map[string]KnownEntry
}

// Thorough reports the tier.
func (c *Ctx) Thorough() bool { return c.Tier == "thorough" }

// Pick returns q in the quick tier and t in the thorough tier.
func (c *Ctx) Pick(q, t int) int {
	if c.Thorough() {
		return t
	}
	return q
}

// Mine reports whether work item i belongs to this shard.
func (c *Ctx) Mine(i int) bool { return i%c.NShards == c.Shard }

// SubRng returns a PRNG determined by (seed, property, label, n) only, so a
// case list does not depend on the number of shards.
func (c *Ctx) SubRng(label string, n int) *rand.Rand {
	h := fnv.New64a()
	fmt.Fprintf(h, "%d|%s|%s|%d", c.Seed, c.Prop, label, n)
	return rand.New(rand.NewSource(int64(h.Sum64())))
}

// Eval counts one judged observation.
func (c *Ctx) Eval() { c.res.Evals++; c.progress.Add(1) }

// EvalN counts n judged observations.
func (c *Ctx) EvalN(n int) { c.res.Evals += int64(n); c.progress.Add(1) }

// Count bumps a named counter.
func (c *Ctx) Count(name string) { c.res.Counters[name]++ }

// CountN adds to a named counter.
func (c *Ctx) CountN(name string, n int64) { c.res.Counters[name] += n }

// NonTrivial records the hash of a distinct non-trivial case.
func (c *Ctx) NonTrivial(h uint64) {
	if len(c.distinct) >= maxDistinctPerWorker {
		if _, ok := c.distinct[h]; !ok {
			c.res.DistinctCap = true
		}
		return
	}
	c.distinct[h] = struct{}{}
}

// Sample keeps the first few cases for the evidence file.
func (c *Ctx) Sample(v interface{}) {
	if len(c.res.Samples) >= 3 {
		return
	}
	b, err := json.Marshal(v)
	if err == nil {
		c.res.Samples = append(c.res.Samples, b)
	}
}

// WantSample reports whether another sample would be kept.
func (c *Ctx) WantSample() bool { return len(c.res.Samples) < 3 }

// Inconclusive counts an observation that could not be judged.
func (c *Ctx) Inconclusive(reason string) { c.res.Inconclusive[reason]++ }

// SetCase installs a lazy description of the case about to be executed; it is
// rendered only if the case panics, hangs or violates.
func (c *Ctx) SetCase(f func() interface{}) { c.cur.Store(f) }

func (c *Ctx) curCase() json.RawMessage {
	f, _ := c.cur.Load().(func() interface{})
	if f == nil {
		return json.RawMessage(`null`)
	}
	var v interface{}
	func() {
		defer func() {
			if r := recover(); r != nil {
				v = fmt.Sprintf("case description panicked: %v", r)
			}
		}()
		v = f()
	}()
	b, err := json.Marshal(v)
	if err != nil {
		b, _ = json.Marshal(fmt.Sprintf("%+v", v))
	}
	return b
}

// Violation records a refutation with the given case (nil = current case).
func (c *Ctx) Violation(kind, detail string, cs interface{}) {
	c.mu.Lock()
	defer c.mu.Unlock()
	c.res.NViolations++
	c.res.Counters["violation:"+kind]++
	if c.res.Counters["violation:"+kind] > 3 || len(c.res.Violations) >= maxViolationsKept {
		return
	}
	var raw json.RawMessage
	if cs == nil {
		raw = c.curCase()
	} else {
		b, err := json.Marshal(cs)
		if err != nil {
			b, _ = json.Marshal(fmt.Sprintf("%+v", cs))
		}
		raw = b
	}
	c.res.Violations = append(c.res.Violations, Violation{Kind: kind, Detail: detail, Case: raw})
}

// KnownOrViolation reports the observation as the listed known finding id if
// known_findings.json lists it with status "known" for this property, and as
// a violation otherwise.
func (c *Ctx) KnownOrViolation(id, kind, detail string, cs interface{}) {
	if e, ok := c.known[id]; ok && e.Status == "known" && e.Covers(c.Prop) {
		c.mu.Lock()
		h := c.res.Known[id]
		if h == nil {
			h = &KnownHit{}
			c.res.Known[id] = h
			if cs == nil {
				h.Sample = c.curCase()
			} else if b, err := json.Marshal(cs); err == nil {
				h.Sample = b
			}
		}
		h.Count++
		c.mu.Unlock()
		return
	}
	c.Violation(kind, detail+" [would match known-finding key "+id+" but it is not listed]", cs)
}

// KnownEntries lists the entries with status "known" that cover this property.
func (c *Ctx) KnownEntries() []KnownEntry {
	var out []KnownEntry
	for _, e := range c.known {
		if e.Status == "known" && e.Covers(c.Prop) {
			out = append(out, e)
		}
	}
	return out
}

// IsKnown reports whether id is listed as known for this property.
func (c *Ctx) IsKnown(id string) bool {
	e, ok := c.known[id]
	return ok && e.Status == "known" && e.Covers(c.Prop)
}

// Try runs f; a panic inside is recorded as a violation of kind "panic" for
// the current case.  It returns false when f panicked.
func (c *Ctx) Try(f func()) (ok bool) {
	defer func() {
		if r := recover(); r != nil {
			ok = false
			st := string(debug.Stack())
			if len(st) > 2500 {
				st = st[:2500]
			}
			c.Violation("panic "+panicSite(st), fmt.Sprintf("%v\n%s", r, st), nil)
		}
	}()
	f()
	return true
}

// Hash helpers -----------------------------------------------------------

// H is an incremental FNV-64a hash.
type H uint64

// NewH starts a hash.
func NewH() H { return 14695981039346656037 }

// U adds a uint64.
func (h H) U(v uint64) H {
	for i := 0; i < 8; i++ {
		h ^= H(v & 0xff)
		h *= 1099511628211
		v >>= 8
	}
	return h
}

// I adds an int.
func (h H) I(v int64) H { return h.U(uint64(v)) }

// S adds a string.
func (h H) S(s string) H {
	for i := 0; i < len(s); i++ {
		h ^= H(s[i])
		h *= 1099511628211
	}
	return h.U(uint64(len(s)))
}

// B adds a bool.
func (h H) B(b bool) H {
	if b {
		return h.U(1)
	}
	return h.U(0)
}

// ---- worker entry ------------------------------------------------------

func newCtx(p *Prop, tier string, seed int64, shard, nshards int, outdir string) *Ctx {
	c := &Ctx{Prop: p.ID, Tier: tier, Seed: seed, Shard: shard, NShards: nshards, OutDir: outdir}
	h := fnv.New64a()
	fmt.Fprintf(h, "%d|%s|%d", seed, p.ID, shard)
	c.Rng = rand.New(rand.NewSource(int64(h.Sum64())))
	c.res.Counters = map[string]int64{}
	c.res.Known = map[string]*KnownHit{}
	c.res.Inconclusive = map[string]int64{}
	c.distinct = map[uint64]struct{}{}
	c.known = LoadKnown()
	return c
}

func (c *Ctx) flush(done bool) {
	c.mu.Lock()
	defer c.mu.Unlock()
	c.res.Done = done
	c.res.Distinct = c.res.Distinct[:0]
	for h := range c.distinct {
		c.res.Distinct = append(c.res.Distinct, h)
	}
	b, _ := json.Marshal(&c.res)
	tmp := filepath.Join(c.OutDir, fmt.Sprintf("w%02d.json.tmp", c.Shard))
	os.WriteFile(tmp, b, 0o644)
	os.Rename(tmp, filepath.Join(c.OutDir, fmt.Sprintf("w%02d.json", c.Shard)))
}

// RunWorker executes one shard in this process.  Exit codes: 0 finished,
// 3 no-progress watchdog fired (current case written to hang file).
func RunWorker(p *Prop, tier string, seed int64, shard, nshards int, outdir string) int {
	c := newCtx(p, tier, seed, shard, nshards, outdir)
	hang := 90
	if p.HangSecs > 0 {
		hang = p.HangSecs
	}
	if tier == "thorough" && p.HangSecsThorough > 0 {
		hang = p.HangSecsThorough
	}
	if v := os.Getenv("VERIF_HANG_SECS"); v != "" {
		fmt.Sscan(v, &hang)
	}
	stop := make(chan struct{})
	go func() {
		last := c.progress.Load()
		idle := 0
		t := time.NewTicker(time.Second)
		defer t.Stop()
		for {
			select {
			case <-stop:
				return
			case <-t.C:
			}
			now := c.progress.Load()
			if now != last {
				last, idle = now, 0
				continue
			}
			idle++
			if idle >= hang {
				raw := c.curCase()
				buf := make([]byte, 1<<16)
				n := runtimeStack(buf)
				rec := map[string]interface{}{"case": raw, "idle_s": idle, "stacks": string(buf[:n])}
				b, _ := json.Marshal(rec)
				os.WriteFile(filepath.Join(outdir, fmt.Sprintf("hang%02d.json", shard)), b, 0o644)
				c.flush(false)
				os.Exit(3)
			}
		}
	}()
	func() {
		defer func() {
			if r := recover(); r != nil {
				st := string(debug.Stack())
				if len(st) > 4000 {
					st = st[:4000]
				}
				c.Violation("panic", fmt.Sprintf("uncaught: %v\n%s", r, st), nil)
			}
		}()
		p.Run(c)
	}()
	close(stop)
	c.flush(true)
	return 0
}

// panicSite names the innermost frame of the library under test in a stack.
func panicSite(st string) string {
	const pfx = "github.com/tidwall/geojson"
	i := strings.Index(st, pfx)
	if i < 0 {
		return "outside-library"
	}
	rest := st[i+len(pfx):]
	if j := strings.IndexByte(rest, '\n'); j >= 0 {
		rest = rest[:j]
	}
	if j := strings.LastIndexByte(rest, '('); j > 0 {
		rest = rest[:j]
	}
	rest = strings.TrimLeft(rest, "/.")
	if len(rest) > 60 {
		rest = rest[:60]
	}
	return rest
}

// ReplayRun executes f with a throw-away context (known findings are loaded,
// nothing is written) and reports what it recorded: the number of violations,
// the known-finding ids hit, and the first violation's kind and detail.
func ReplayRun(p *Prop, f func(c *Ctx)) (violations int64, known []string, first string) {
	c := newCtx(p, "quick", 1, 0, 1, os.TempDir())
	func() {
		defer func() {
			if r := recover(); r != nil {
				c.Violation("panic", fmt.Sprint(r), nil)
			}
		}()
		f(c)
	}()
	for k := range c.res.Known {
		known = append(known, k)
	}
	sort.Strings(known)
	if len(c.res.Violations) > 0 {
		v := c.res.Violations[0]
		first = v.Kind + ": " + v.Detail
		if i := strings.IndexByte(first, '\n'); i > 0 {
			first = first[:i]
		}
	}
	return c.res.NViolations, known, first
}
