// Package sphere is the reference spherical geometry of the monitors: 3-vector
// formulas that are well conditioned everywhere (unlike asin(sqrt(h))), plus a
// 200-bit residual check that bounds the reference's own error.  It does not
// import the library under test.
package sphere

import (
	"math"
	"math/big"
)

// R is the sphere radius used by the library (metres).
const R = 6371e3

const rad = math.Pi / 180

// Vec is a unit vector.
type Vec [3]float64

// ToVec converts degrees to a unit vector.
func ToVec(lat, lon float64) Vec {
	sl, cl := math.Sincos(lat * rad)
	so, co := math.Sincos(lon * rad)
	return Vec{cl * co, cl * so, sl}
}

func cross(a, b Vec) Vec {
	return Vec{a[1]*b[2] - a[2]*b[1], a[2]*b[0] - a[0]*b[2], a[0]*b[1] - a[1]*b[0]}
}
func dot(a, b Vec) float64 { return a[0]*b[0] + a[1]*b[1] + a[2]*b[2] }
func norm(a Vec) float64   { return math.Sqrt(dot(a, a)) }

// Angle is the central angle in radians.
func Angle(lat1, lon1, lat2, lon2 float64) float64 {
	a, b := ToVec(lat1, lon1), ToVec(lat2, lon2)
	return math.Atan2(norm(cross(a, b)), dot(a, b))
}

// Dist is the great-circle distance in metres.
func Dist(lat1, lon1, lat2, lon2 float64) float64 { return R * Angle(lat1, lon1, lat2, lon2) }

// Dest travels d metres from (lat,lon) along the initial bearing (degrees
// clockwise from north) by rotating the position vector.
func Dest(lat, lon, d, bearing float64) (float64, float64) {
	p := ToVec(lat, lon)
	sl, cl := math.Sincos(lat * rad)
	so, co := math.Sincos(lon * rad)
	north := Vec{-sl * co, -sl * so, cl}
	east := Vec{-so, co, 0}
	sb, cb := math.Sincos(bearing * rad)
	dir := Vec{north[0]*cb + east[0]*sb, north[1]*cb + east[1]*sb, north[2]*cb + east[2]*sb}
	sd, cd := math.Sincos(d / R)
	q := Vec{p[0]*cd + dir[0]*sd, p[1]*cd + dir[1]*sd, p[2]*cd + dir[2]*sd}
	return math.Atan2(q[2], math.Hypot(q[0], q[1])) / rad, math.Atan2(q[1], q[0]) / rad
}

// Bearing is the initial bearing from 1 to 2 in [0,360).
func Bearing(lat1, lon1, lat2, lon2 float64) float64 {
	sl, cl := math.Sincos(lat1 * rad)
	so, co := math.Sincos(lon1 * rad)
	north := Vec{-sl * co, -sl * so, cl}
	east := Vec{-so, co, 0}
	b := ToVec(lat2, lon2)
	th := math.Atan2(dot(east, b), dot(north, b)) / rad
	if th < 0 {
		th += 360
	}
	return th
}

// ---- 200-bit residual ----

const prec = 200

func bf(x float64) *big.Float { return new(big.Float).SetPrec(prec).SetFloat64(x) }

var bigPi = func() *big.Float {
	p, _, _ := big.ParseFloat("3.14159265358979323846264338327950288419716939937510582097494459230781640628620899862803482534211706798", 10, prec, big.ToNearestEven)
	return p
}()

func mulf(a, b *big.Float) *big.Float { return new(big.Float).SetPrec(prec).Mul(a, b) }
func addf(a, b *big.Float) *big.Float { return new(big.Float).SetPrec(prec).Add(a, b) }
func subf(a, b *big.Float) *big.Float { return new(big.Float).SetPrec(prec).Sub(a, b) }
func quof(a, b *big.Float) *big.Float { return new(big.Float).SetPrec(prec).Quo(a, b) }

// bigSinCos by Taylor series after reduction to |x| <= pi/4 by repeated halving.
func bigSinCos(x *big.Float) (*big.Float, *big.Float) {
	// halve k times, then apply double-angle formulas k times
	k := 0
	y := new(big.Float).SetPrec(prec).Set(x)
	half := bf(0.5)
	for y.Cmp(bf(0.25)) > 0 || y.Cmp(bf(-0.25)) < 0 {
		y = mulf(y, half)
		k++
	}
	y2 := mulf(y, y)
	s := new(big.Float).SetPrec(prec).Set(y)
	c := bf(1)
	ts := new(big.Float).SetPrec(prec).Set(y)
	tc := bf(1)
	for n := 1; n < 40; n++ {
		tc = quof(mulf(tc, y2), bf(float64((2*n-1)*(2*n))))
		ts = quof(mulf(ts, y2), bf(float64((2*n)*(2*n+1))))
		if n%2 == 1 {
			c = subf(c, tc)
			s = subf(s, ts)
		} else {
			c = addf(c, tc)
			s = addf(s, ts)
		}
	}
	for i := 0; i < k; i++ {
		s2 := mulf(bf(2), mulf(s, c))
		c2 := subf(mulf(c, c), mulf(s, s))
		s, c = s2, c2
	}
	return s, c
}

func degToBig(d float64) *big.Float { return quof(mulf(bf(d), bigPi), bf(180)) }

func bigVec(lat, lon float64) [3]*big.Float {
	sl, cl := bigSinCos(degToBig(lat))
	so, co := bigSinCos(degToBig(lon))
	return [3]*big.Float{mulf(cl, co), mulf(cl, so), sl}
}

// Residual returns, in radians, how far the central angle of the two
// locations is from d/R, evaluated in 200-bit arithmetic:
// |a x b| cos(t) - (a.b) sin(t) = sin(angle - t).
func Residual(lat1, lon1, lat2, lon2, d float64) float64 {
	a, b := bigVec(lat1, lon1), bigVec(lat2, lon2)
	cx := subf(mulf(a[1], b[2]), mulf(a[2], b[1]))
	cy := subf(mulf(a[2], b[0]), mulf(a[0], b[2]))
	cz := subf(mulf(a[0], b[1]), mulf(a[1], b[0]))
	n2 := addf(addf(mulf(cx, cx), mulf(cy, cy)), mulf(cz, cz))
	n := new(big.Float).SetPrec(prec).Sqrt(n2)
	dt := addf(addf(mulf(a[0], b[0]), mulf(a[1], b[1])), mulf(a[2], b[2]))
	st, ct := bigSinCos(quof(bf(d), bf(R)))
	res := subf(mulf(n, ct), mulf(dt, st))
	f, _ := res.Float64()
	return math.Abs(f)
}
