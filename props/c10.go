package props

import (
	"fmt"
	"math"
	"math/rand"
	"sort"

	"github.com/tidwall/geojson"
	"github.com/tidwall/geojson/geo"
	"github.com/tidwall/geojson/geometry"

	"verif/internal/exact"
	"verif/internal/gen"
	"verif/internal/mon"
)

// C10: collections answer as the composition of their children, indexed or not.

type c10Case struct {
	Collection interface{} `json:"collection"`
	Probe      interface{} `json:"probe,omitempty"`
	Build      string      `json:"build"`
	What       string      `json:"what"`
	Got        string      `json:"got"`
	Want       string      `json:"want"`
}

func isColl(o geojson.Object) (geojson.Collection, bool) {
	c, ok := o.(geojson.Collection)
	return c, ok
}

// leaves flattens an object through collections and Features.
func leaves(o geojson.Object, out []geojson.Object) []geojson.Object {
	if f, ok := o.(*geojson.Feature); ok {
		return leaves(f.Base(), out)
	}
	if c, ok := isColl(o); ok {
		for _, ch := range c.Children() {
			out = leaves(ch, out)
		}
		return out
	}
	return append(out, o)
}

// defIntersects evaluates the statement's definition recursively; only
// leaf-against-leaf answers are taken from the library.
func defIntersects(a, b geojson.Object) bool {
	for _, x := range leaves(a, nil) {
		if x.Empty() {
			continue
		}
		for _, y := range leaves(b, nil) {
			if y.Empty() {
				continue
			}
			if x.Intersects(y) {
				return true
			}
		}
	}
	return false
}

// defContainsLeaf: some child of a (recursively) contains the leaf p.
func defContainsLeaf(a geojson.Object, p geojson.Object) bool {
	if f, ok := a.(*geojson.Feature); ok {
		return defContainsLeaf(f.Base(), p)
	}
	if c, ok := isColl(a); ok {
		for _, ch := range c.Children() {
			if ch.Empty() {
				continue
			}
			if defContainsLeaf(ch, p) {
				return true
			}
		}
		return false
	}
	return a.Contains(p)
}

// defContains: X has a non-empty part and every non-empty part of X is
// contained by some child.
func defContains(a, x geojson.Object) bool {
	any := false
	for _, p := range leaves(x, nil) {
		if p.Empty() {
			continue
		}
		any = true
		if !defContainsLeaf(a, p) {
			return false
		}
	}
	return any
}

// defWithinLeaf: the collection c is within the leaf x iff it is non-empty
// and every child is within x.
func defWithinLeaf(c geojson.Object, x geojson.Object) bool {
	if f, ok := c.(*geojson.Feature); ok {
		return defWithinLeaf(f.Base(), x)
	}
	if col, ok := isColl(c); ok {
		if c.Empty() {
			return false
		}
		for _, ch := range col.Children() {
			if !defWithinLeaf(ch, x) {
				return false
			}
		}
		return true
	}
	return c.Within(x)
}

func unwrap(o geojson.Object) geojson.Object {
	for {
		f, ok := o.(*geojson.Feature)
		if !ok {
			return o
		}
		o = f.Base()
	}
}

func c10Collection(r *rand.Rand, kind string, anchor *exact.Shape, n int, parseable bool) *Node {
	c := &Node{Kind: kind}
	leafKinds := []string{"Point", "LineString", "Polygon", "Rect", "SimplePoint", "MultiPoint", "MultiPolygon", "Feature", "GeometryCollection"}
	if !parseable && r.Intn(4) == 0 {
		leafKinds = append(leafKinds, "Circle", "Circle")
	}
	var dup *Node
	for i := 0; i < n; i++ {
		var ch *Node
		switch kind {
		case "MultiPoint":
			ch = c09Node(r, "Point", anchor, 3)
		case "MultiLineString":
			ch = c09Node(r, "LineString", anchor, 3)
			if !parseable && r.Intn(8) == 0 {
				ch = nLine(ch.Rings[0][:r.Intn(2)]) // empty child
			}
		case "MultiPolygon":
			ch = c09Node(r, "Polygon", anchor, 3)
			if !parseable && r.Intn(8) == 0 {
				ch = &Node{Kind: "Polygon", Rings: [][]geometry.Point{ch.Rings[0][:r.Intn(3)]}}
			}
		default:
			k := leafKinds[r.Intn(len(leafKinds))]
			if kind == "FeatureCollection" && r.Intn(3) != 0 {
				k = "Feature"
			}
			ch = c09Node(r, k, anchor, 1)
			if parseable && (k == "Rect" || k == "SimplePoint") {
				ch = c09Node(r, "Polygon", anchor, 1)
			}
		}
		if dup != nil && r.Intn(10) == 0 {
			ch = dup // duplicate child
		}
		if r.Intn(5) == 0 {
			dup = ch
		}
		c.Children = append(c.Children, ch)
	}
	return c
}

func c10Check(c *mon.Ctx, nc, nx *Node, oc, ox geojson.Object, build string) {
	col := oc.(geojson.Collection)
	mk := func(what, got, want string) c10Case {
		return c10Case{Collection: nc.Describe(), Probe: nx.Describe(), Build: build, What: what, Got: got, Want: want}
	}
	c.Eval()
	c.Count("kind " + nc.Kind)
	if col.Indexed() {
		c.Count("indexed_collections")
	} else {
		c.Count("unindexed_collections")
	}
	f15 := hasFeatureWrappedCollection(nx) || hasFeatureWrappedCollection(nc)
	report := func(kind, detail string, cs c10Case, containsLike bool) {
		if containsLike && f15 {
			c.KnownOrViolation("F15", kind, detail, cs)
			return
		}
		if containsLike {
			// leaf answers are the library's own, so F4/F5 cannot leak in
			// through them; a difference here is the composition
		}
		c.Violation(kind, detail, cs)
	}
	// intersects
	wi := defIntersects(oc, ox)
	if gi := oc.Intersects(ox); gi != wi {
		report("intersects", "collection.Intersects(X) differs from 'some non-empty child intersects some non-empty part of X'", mk("Intersects", fmt.Sprint(gi), fmt.Sprint(wi)), false)
	}
	if gi := ox.Intersects(oc); gi != wi {
		report("intersects-arg", "X.Intersects(collection) differs from the definition", mk("X.Intersects(C)", fmt.Sprint(gi), fmt.Sprint(wi)), false)
	}
	if wi {
		c.Count("intersects_true")
	}
	// contains
	wc := defContains(oc, ox)
	if gc := oc.Contains(ox); gc != wc {
		report("contains", "collection.Contains(X) differs from 'X has a non-empty part and every non-empty part of X is contained by some child'", mk("Contains", fmt.Sprint(gc), fmt.Sprint(wc)), true)
	}
	if wc {
		c.Count("contains_true")
	}
	// within: asserted through the receiver's clause when X is a collection,
	// through the within clause when X is a leaf (after unwrapping Features)
	ux := unwrap(ox)
	if _, xIsColl := isColl(ux); xIsColl {
		ww := defContains(ox, oc)
		if gw := oc.Within(ox); gw != ww {
			report("within-collection", "collection.Within(X) differs from X.Contains(collection) as defined", mk("Within", fmt.Sprint(gw), fmt.Sprint(ww)), true)
		}
	} else {
		ww := defWithinLeaf(oc, ox)
		if gw := oc.Within(ox); gw != ww {
			report("within", "collection.Within(X) differs from 'non-empty and every child is within X'", mk("Within", fmt.Sprint(gw), fmt.Sprint(ww)), true)
		}
		if ww {
			c.Count("within_true")
		}
	}
}

func c10Structure(c *mon.Ctx, nc *Node, oc geojson.Object, build string, r *rand.Rand, qs []geometry.Rect) {
	col := oc.(geojson.Collection)
	mk := func(what, got, want string) c10Case {
		return c10Case{Collection: nc.Describe(), Build: build, What: what, Got: got, Want: want}
	}
	ch := col.Children()
	c.Eval()
	if len(ch) != len(nc.Children) {
		c.Violation("children", "number of children", mk("Children", fmt.Sprint(len(ch)), fmt.Sprint(len(nc.Children))))
		return
	}
	// Base() is the same list as Children()
	if bo, ok := oc.(interface{ Base() []geojson.Object }); ok {
		base := bo.Base()
		same := len(base) == len(ch)
		for i := 0; same && i < len(ch); i++ {
			same = base[i] == ch[i]
		}
		if !same {
			c.Violation("base-children", "Base() and Children() differ", mk("Base", fmt.Sprint(len(base)), fmt.Sprint(len(ch))))
		}
		c.Count("base_checked")
	}
	// order: each child serialises like the model child at the same place
	allEmpty, np := true, 0
	orderBad := false
	var rect geometry.Rect
	first := true
	for i, k := range ch {
		if !k.Empty() {
			allEmpty = false
			if first {
				rect, first = k.Rect(), false
			} else {
				kr := k.Rect()
				rect = geometry.Rect{Min: geometry.Point{X: min(rect.Min.X, kr.Min.X), Y: min(rect.Min.Y, kr.Min.Y)}, Max: geometry.Point{X: max(rect.Max.X, kr.Max.X), Y: max(rect.Max.Y, kr.Max.Y)}}
			}
		}
		np += k.NumPoints()
		if wantFirst := firstPos(nc.Children[i]); wantFirst != nil && !orderBad {
			if gotFirst := firstPosObj(k); gotFirst == nil || *gotFirst != *wantFirst {
				c.Violation("child-order", "children are not in document order", mk(fmt.Sprintf("Children()[%d]", i), fmt.Sprint(gotFirst), fmt.Sprint(*wantFirst)))
				orderBad = true
			}
		}
	}
	if oc.Empty() != allEmpty {
		c.Violation("empty", "collection emptiness differs from 'all children empty'", mk("Empty", fmt.Sprint(oc.Empty()), fmt.Sprint(allEmpty)))
	}
	if !allEmpty && oc.Rect() != rect {
		c.Violation("rect", "collection rectangle is not the union of its non-empty children's rectangles", mk("Rect", fmt.Sprint(oc.Rect()), fmt.Sprint(rect)))
	}
	if oc.NumPoints() != np {
		c.Violation("numpoints", "point count is not the sum over the children", mk("NumPoints", fmt.Sprint(oc.NumPoints()), fmt.Sprint(np)))
	}
	// child search
	for _, q := range qs {
		var want []int
		for i, k := range ch {
			if !k.Empty() && rectsMeet(k.Rect(), q) {
				want = append(want, i)
			}
		}
		idx := map[geojson.Object][]int{}
		for i, k := range ch {
			idx[k] = append(idx[k], i)
		}
		var got []int
		used := map[geojson.Object]int{}
		unknown := false
		col.Search(q, func(child geojson.Object) bool {
			l := idx[child]
			if used[child] >= len(l) {
				unknown = true
				return true
			}
			got = append(got, l[used[child]])
			used[child]++
			return true
		})
		c.Eval()
		sort.Ints(got)
		same := !unknown && len(got) == len(want)
		if same {
			for i := range want {
				if got[i] != want[i] {
					same = false
				}
			}
		}
		if !same {
			c.Violation("search", "child search does not report exactly the non-empty children whose rectangle meets the query, once each", mk(fmt.Sprintf("Search(%v)", q), fmt.Sprint(got), fmt.Sprint(want)))
			continue
		}
		if len(want) > 0 && len(want) < len(ch) {
			c.Count("searches_proper_subset")
		}
		for _, stop := range []int{1, 2, len(want)} {
			if stop < 1 || stop > len(want) {
				continue
			}
			calls := 0
			col.Search(q, func(geojson.Object) bool { calls++; return calls < stop })
			if calls != stop {
				c.Violation("search-stop", "child search kept calling back after the callback returned false", mk(fmt.Sprintf("Search(%v) stop at %d", q, stop), fmt.Sprint(calls), fmt.Sprint(stop)))
			}
			c.Count("search_early_stops")
		}
	}
}

func firstPos(n *Node) *geometry.Point {
	ps := n.Positions(false, nil)
	if len(ps) == 0 {
		return nil
	}
	return &ps[0]
}

func firstPosObj(o geojson.Object) *geometry.Point {
	switch v := o.(type) {
	case *geojson.Point:
		p := v.Base()
		return &p
	case *geojson.SimplePoint:
		p := v.Base()
		return &p
	case *geojson.LineString:
		if v.Base().NumPoints() > 0 {
			p := v.Base().PointAt(0)
			return &p
		}
	case *geojson.Polygon:
		if v.Base().Exterior != nil && v.Base().Exterior.NumPoints() > 0 {
			p := v.Base().Exterior.PointAt(0)
			return &p
		}
		for _, h := range v.Base().Holes {
			if h.NumPoints() > 0 {
				p := h.PointAt(0)
				return &p
			}
		}
	case *geojson.Rect:
		p := v.Base().Min
		return &p
	case *geojson.Circle:
		p := v.Center()
		return &p
	case *geojson.Feature:
		return firstPosObj(v.Base())
	case geojson.Collection:
		for _, ch := range v.Children() {
			if p := firstPosObj(ch); p != nil {
				return p
			}
		}
	}
	return nil
}

var collKinds = []string{"MultiPoint", "MultiLineString", "MultiPolygon", "GeometryCollection", "FeatureCollection"}

// c10CircleChildren: a collection holding a Circle answers point probes as its
// children do, also inside the thin sliver between the circle and its polygon
// approximation.  Only leaf answers of the library are used: the expected
// answer is "some non-empty child whose rectangle meets the probe's rectangle
// gives that answer itself".
func c10CircleChildren(c *mon.Ctx) {
	n := c.Pick(20000, 400000)
	for i := 0; i < n; i++ {
		if !c.Mine(i) {
			continue
		}
		r := c.SubRng("circle-child", i)
		ctr := geometry.Point{X: r.Float64()*300 - 150, Y: r.Float64()*130 - 65}
		m := math.Pow(10, 2+r.Float64()*3.7)
		steps := []int{16, 32, 64, 64, 64}[r.Intn(5)]
		nfar := []int{0, 1, 3, 70}[r.Intn(4)]
		mkKids := func() []geojson.Object {
			kids := []geojson.Object{}
			for k := 0; k < nfar; k++ {
				kids = append(kids, geojson.NewPoint(geometry.Point{X: ctr.X + 20 + float64(k%9), Y: ctr.Y - 15 + float64(k/9)}))
				if k == nfar/2 {
					kids = append(kids, geojson.NewCircle(ctr, m, steps))
				}
			}
			if nfar == 0 {
				kids = append(kids, geojson.NewCircle(ctr, m, steps))
			}
			return kids
		}
		var coll geojson.Object
		kind := "GeometryCollection"
		if i%2 == 0 {
			coll = geojson.NewGeometryCollection(mkKids())
		} else {
			kind = "FeatureCollection"
			coll = geojson.NewFeatureCollection(mkKids())
		}
		kids := coll.(geojson.Collection).Children()
		for _, f := range []float64{0.5, 0.9995, 0.99995, 1.0005, 1.02} {
			brg := (float64(r.Intn(steps)) + 0.5) * 360 / float64(steps)
			if r.Intn(4) == 0 {
				brg = float64(r.Intn(steps)) * 360 / float64(steps)
			}
			la, lo := geo.DestinationPoint(ctr.Y, ctr.X, f*m, brg)
			p := geometry.Point{X: lo, Y: la}
			for xi, x := range []geojson.Object{geojson.NewPoint(p), geojson.NewSimplePoint(p), geojson.NewFeature(geojson.NewPoint(p), "")} {
				xn := [...]string{"Point", "SimplePoint", "Feature(Point)"}[xi]
				c.SetCase(func() interface{} {
					return map[string]interface{}{"collection": kind, "children": len(kids), "circle_centre": []float64{ctr.X, ctr.Y}, "meters": m, "steps": steps, "probe": xn, "probe_at": []float64{p.X, p.Y}, "radius_fraction": f, "bearing": brg}
				})
				c.Try(func() {
					wantI, wantC := false, false
					for _, k := range kids {
						if k.Empty() || !k.Rect().IntersectsRect(x.Rect()) {
							continue
						}
						wantI = wantI || k.Intersects(x)
						wantC = wantC || k.Contains(x)
					}
					c.Eval()
					c.Count("circle_child_probes")
					if wantI {
						c.Count("circle_child_probes_true")
					}
					cs := map[string]interface{}{"collection": kind, "children": len(kids), "indexed": coll.(geojson.Collection).Indexed(), "circle_centre": []float64{ctr.X, ctr.Y}, "meters": m, "steps": steps, "probe": xn, "probe_at": []float64{p.X, p.Y}, "radius_fraction": f, "bearing": brg}
					if got := coll.Intersects(x); got != wantI {
						cs["got"], cs["children_say"] = got, wantI
						c.Violation("circle-child-intersects", "a collection with a Circle child answers Intersects differently from its children", cs)
					} else if got := coll.Contains(x); got != wantC {
						cs["got"], cs["children_say"] = got, wantC
						c.Violation("circle-child-contains", "a collection with a Circle child answers Contains differently from its children", cs)
					}
				})
			}
		}
	}
}

func c10Run(c *mon.Ctx) {
	c10CircleChildren(c)
	n := c.Pick(300000, 6000000)
	for i := 0; i < n; i++ {
		if !c.Mine(i) {
			continue
		}
		r := c.SubRng("coll", i)
		kind := collKinds[i%5]
		anchor := gen.RandShape(r, exact.KPoly, 1)
		far := false
		if i%8 == 5 {
			// the whole configuration far outside the longitude/latitude range (planar composition does not care)
			t := gen.Transform{Name: "far", Num: 1, Den: 1, TX: []int64{400, -1000, 0, 4096}[i/8%4] * gen.U, TY: []int64{200, 0, -300, 4096}[i/8%4] * gen.U}
			if sh, ok := t.ApplyShape(anchor); ok {
				anchor, far = sh, true
				c.Count("configurations_outside_lonlat_range")
			}
		}
		count := []int{0, 1, 2, 3, 5, 8}[r.Intn(6)]
		switch r.Intn(12) {
		case 0:
			count = 62 + r.Intn(6)
		case 1:
			count = 100 + r.Intn(100)
		}
		viaParse := i%2 == 0
		nc := c10Collection(r, kind, anchor, count, viaParse)
		var oc geojson.Object
		build := "constructors(default child index threshold 64)"
		c.SetCase(func() interface{} { return c10Case{Collection: nc.Describe(), Build: build} })
		ok := c.Try(func() {
			if viaParse && nc.Parseable() {
				nc.DecorateBBoxes(r)
				thr := []int{0, 1, count, count + 1, 64}[r.Intn(5)]
				po := &geojson.ParseOptions{IndexChildren: thr, IndexGeometry: 64, IndexGeometryKind: geometry.QuadTree}
				build = fmt.Sprintf("Parse(IndexChildren=%d)", thr)
				o, err := geojson.Parse(nc.JSON(), po)
				if err != nil {
					c.Violation("parse", "model text rejected: "+err.Error(), c10Case{Collection: nc.Describe(), Build: build})
					return
				}
				oc = o
				c.Count("built_by_parse")
				// the same document with the child index off must answer alike
			} else {
				oc = nc.Build(nil)
				c.Count("built_by_constructors")
			}
		})
		if !ok || oc == nil {
			continue
		}
		// query rectangles
		var qs []geometry.Rect
		for k := 0; k < 6; k++ {
			a, b := gen.RandShapeNear(r, exact.KRect, anchor, 0), gen.RandShapeNear(r, exact.KPoint, anchor, 0)
			qs = append(qs, mkRect(a.Pts[0], a.Pts[1]), geometry.Rect{Min: gpt(b.Pts[0]), Max: gpt(b.Pts[0])})
		}
		qs = append(qs, geometry.Rect{Min: geometry.Point{X: -1e9, Y: -1e9}, Max: geometry.Point{X: 1e9, Y: 1e9}}, geometry.Rect{Min: geometry.Point{X: 500, Y: 500}, Max: geometry.Point{X: 501, Y: 501}})
		c.Try(func() { c10Structure(c, nc, oc, build, r, qs) })
		// probes of every kind
		for k := 0; k < 6; k++ {
			xk := kinds12[r.Intn(len(kinds12))]
			nx := c09Node(r, xk, anchor, 1)
			if far && (hasKind(nc, "Circle") || hasKind(nx, "Circle")) {
				// a circle centred outside the latitude range has no great-circle meaning: the planar
				// far-away configurations are judged without circles
				c.Count("far_configurations_with_circles_skipped")
				continue
			}
			if xk == "Circle" {
				if !circleBandClear(nx, nc) {
					c.Inconclusive("a position of the collection lies in the band where the circle's rectangle pre-filter and its exact-distance test may differ")
					continue
				}
				c.Count("circle_probes")
			}
			if hasKind(nc, "Circle") {
				if !circleBandClear(nc, nx) {
					c.Inconclusive("a position of the probe lies in the band where a circle child's rectangle pre-filter and its exact-distance test may differ")
					continue
				}
				c.Count("collections_with_circle_children")
			}
			ox := nx.Build(nil)
			c.SetCase(func() interface{} { return c10Case{Collection: nc.Describe(), Probe: nx.Describe(), Build: build} })
			c.Try(func() { c10Check(c, nc, nx, oc, ox, build) })
		}
		// indexed and unindexed builds of the same document answer identically
		if viaParse && nc.Parseable() {
			c.Try(func() {
				a, e1 := geojson.Parse(nc.JSON(), &geojson.ParseOptions{IndexChildren: 0, IndexGeometry: 64, IndexGeometryKind: geometry.QuadTree})
				b, e2 := geojson.Parse(nc.JSON(), &geojson.ParseOptions{IndexChildren: 1, IndexGeometry: 64, IndexGeometryKind: geometry.QuadTree})
				if e1 != nil || e2 != nil {
					return
				}
				for k := 0; k < 4; k++ {
					nx := c09Node(r, kinds12[r.Intn(5)], anchor, 1)
					ox := nx.Build(nil)
					c.Eval()
					c.Count("indexed_vs_unindexed")
					if evalTri(a, ox) != evalTri(b, ox) || evalTri(ox, a) != evalTri(ox, b) {
						c.Violation("child-index-changes-answer", "answers differ with and without the child index", c10Case{Collection: nc.Describe(), Probe: nx.Describe(), Build: "Parse(IndexChildren=0) vs Parse(IndexChildren=1)"})
					}
				}
			})
		}
		c.NonTrivial(uint64(mon.NewH().S(oc.JSON())))
		if i < 200 && i%16 == c.Shard && i%5 == 0 && c.WantSample() {
			c.Sample(c10Case{Collection: nc.Describe(), Build: build})
		}
	}
}

func init() {
	must := []string{"configurations_outside_lonlat_range", "circle_child_probes", "circle_child_probes_true", "collections_with_circle_children", "circle_probes", "indexed_collections", "unindexed_collections", "built_by_parse", "built_by_constructors", "searches_proper_subset", "search_early_stops", "intersects_true", "contains_true", "within_true", "indexed_vs_unindexed"}
	for _, k := range collKinds {
		must = append(must, "kind "+k)
	}
	mon.Register(&mon.Prop{
		ID:          "C10",
		Rule:        "collections of the five kinds with 0..200 children (empty children, duplicate children, mixed kinds, nested collections, Feature-wrapped children) around an anchor polygon on the exact lattice, built through the constructors (default child index at 64 children) or through Parse with IndexChildren in {0, 1, count, count+1, 64}; each is probed with six objects of any kind and 14 query rectangles. Expected answers are computed by brute force from the statement's definitions over Children(), taking only leaf-against-leaf answers from the library. Non-trivial = distinct collection document.",
		Assumptions: []string{"leaf-against-leaf predicate answers are the library's own (their exactness is C01-C03's business), so only the composition is judged", "C.Within(X) for X a collection (or a Feature wrapping one) is asserted through X.Contains(C) only; the 'every child is within X' clause is asserted when X is a leaf after unwrapping Features", "known finding F15 (Feature wrapping a collection is not descended into) is matched when such a Feature occurs in the probe or the collection"},
		Run:         c10Run,
		MustSee:     must,
	})
}
