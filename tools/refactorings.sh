#!/bin/bash
# behaviour-preserving refactorings of the library: every check must stay silent
export GOFLAGS=-mod=mod GOPROXY=off GOSUMDB=off GOTOOLCHAIN=local
W=/tmp/vseed3
reset(){ git -C $W checkout -q --detach $(git -C /repo rev-parse HEAD); git -C $W checkout -q -- .; }
try(){ name=$1; shift; (cd $W && go build ./... ) || { echo "$name: does not build"; reset; return; }
  S=$(cd $W && go test -vet=off -count=1 ./... 2>&1 | grep -c "^FAIL")
  echo "== $name (suite failures: $S)"
  for id in "$@"; do OUT=$(cd /verif && VERIF_REPO=$W ./check.sh $id quick 2>&1); echo "$name $id exit=$? $(echo "$OUT" | tail -1 | cut -c1-130)"; echo "$OUT" | grep "^VIOLATION" | head -2 | cut -c1-250; done
  reset; }
reset
sed -i 's/const qMaxItems = 32/const qMaxItems = 8/' $W/geometry/qtree.go; sed -i 's/const rMaxEntries = 16/const rMaxEntries = 6/' $W/geometry/rtree.go
try R1-node-capacities C04 C01 C03 C02 C08 C12 C05
python3 - <<'PY'
p='/tmp/vseed3/circle.go'; s=open(p).read()
old='''	for th := 0.0; th <= 360.0; th += 360.0 / float64(steps) {
		radians := (math.Pi / 180) * th'''
new='''	for k := 0; k <= steps; k++ {
		th := (float64(k) + 0.5) * 360.0 / float64(steps)
		radians := (math.Pi / 180) * th'''
assert old in s; open(p,'w').write(s.replace(old,new,1))
PY
try R3-circle-vertices-rotated C13 C09 C10 C08 C11 C06 C17
sed -i "s/return strconv.AppendFloat(dst, f, 'f', -1, 64)/return strconv.AppendFloat(dst, f, 'g', -1, 64)/" $W/object.go
try R4-number-format-g C06 C17 C13 C08 C07 C05 C10
python3 - <<'PY'
p='/tmp/vseed3/collection.go'; s=open(p).read()
old='''		for _, child := range g.children {
			if child.Empty() {
				continue
			}
			if child.Rect().IntersectsRect(rect) {'''
new='''		for i := len(g.children) - 1; i >= 0; i-- {
			child := g.children[i]
			if child.Empty() {
				continue
			}
			if child.Rect().IntersectsRect(rect) {'''
assert old in s; open(p,'w').write(s.replace(old,new,1))
PY
try R6-child-search-reverse-order C10 C09 C08 C05 C06
python3 - <<'PY'
p='/tmp/vseed3/geo/geo.go'; s=open(p).read()
old='''	return earthRadius * 2 * math.Asin(math.Sqrt(haversine))'''
new='''	return earthRadius * 2 * math.Atan2(math.Sqrt(haversine), math.Sqrt(1-haversine))'''
assert old in s; open(p,'w').write(s.replace(old,new,1))
PY
try R2-distance-by-atan2 C15 C13 C14 C09
echo REFAC-DONE
