package props

import (
	"fmt"
	"math"
	"sort"
	"strings"

	"github.com/tidwall/geojson"
	"github.com/tidwall/geojson/geometry"
)

// objOp is one public operation on a (receiver, argument) pair, returning a
// deterministic digest of its result.
type objOp struct {
	Name string
	F    func(a, b geojson.Object) string
}

func bs(v bool) string {
	if v {
		return "t"
	}
	return "f"
}

func fs(f float64) string { return fmt.Sprintf("%x", math.Float64bits(f)) }

func rs(r geometry.Rect) string {
	return fs(r.Min.X) + "," + fs(r.Min.Y) + "," + fs(r.Max.X) + "," + fs(r.Max.Y)
}

// geomArgs derives geometry-level arguments from an object.
func geomArgs(b geojson.Object) (pt geometry.Point, rect geometry.Rect, line *geometry.Line, poly *geometry.Poly) {
	pt, rect = b.Center(), b.Rect()
	switch v := b.(type) {
	case *geojson.LineString:
		line = v.Base()
	case *geojson.Polygon:
		poly = v.Base()
	case *geojson.Feature:
		return geomArgs(v.Base())
	}
	return
}

func baseGeometry(o geojson.Object) geometry.Geometry {
	switch v := o.(type) {
	case *geojson.Point:
		return v.Base()
	case *geojson.SimplePoint:
		return v.Base()
	case *geojson.Rect:
		return v.Base()
	case *geojson.LineString:
		return v.Base()
	case *geojson.Polygon:
		return v.Base()
	}
	return nil
}

var objOps = []objOp{
	{"Empty", func(a, b geojson.Object) string { return bs(a.Empty()) }},
	{"Valid", func(a, b geojson.Object) string { return bs(a.Valid()) }},
	{"Rect", func(a, b geojson.Object) string { return rs(a.Rect()) }},
	{"Center", func(a, b geojson.Object) string { c := a.Center(); return fs(c.X) + "," + fs(c.Y) }},
	{"Contains", func(a, b geojson.Object) string { return bs(a.Contains(b)) }},
	{"Within", func(a, b geojson.Object) string { return bs(a.Within(b)) }},
	{"Intersects", func(a, b geojson.Object) string { return bs(a.Intersects(b)) }},
	{"JSON", func(a, b geojson.Object) string { return a.JSON() }},
	{"String", func(a, b geojson.Object) string { return a.String() }},
	{"AppendJSON", func(a, b geojson.Object) string { return string(a.AppendJSON([]byte("p:"))) }},
	{"MarshalJSON", func(a, b geojson.Object) string { m, err := a.MarshalJSON(); return string(m) + fmt.Sprint(err) }},
	{"Members", func(a, b geojson.Object) string { return a.Members() }},
	{"Distance", func(a, b geojson.Object) string { return fs(a.Distance(b)) }},
	{"NumPoints", func(a, b geojson.Object) string { return fmt.Sprint(a.NumPoints()) }},
	{"ForEach", func(a, b geojson.Object) string {
		var sb strings.Builder
		n := 0
		a.ForEach(func(g geojson.Object) bool {
			n++
			sb.WriteString(fmt.Sprintf("%T/%d;", g, g.NumPoints()))
			return n < 50
		})
		return sb.String()
	}},
	{"Spatial.Within*", func(a, b geojson.Object) string {
		s := a.Spatial()
		pt, rect, line, poly := geomArgs(b)
		out := bs(s.WithinPoint(pt)) + bs(s.WithinRect(rect))
		if line != nil {
			out += bs(s.WithinLine(line))
		}
		if poly != nil {
			out += bs(s.WithinPoly(poly))
		}
		return out
	}},
	{"Spatial.Intersects*", func(a, b geojson.Object) string {
		s := a.Spatial()
		pt, rect, line, poly := geomArgs(b)
		out := bs(s.IntersectsPoint(pt)) + bs(s.IntersectsRect(rect))
		if line != nil {
			out += bs(s.IntersectsLine(line))
		}
		if poly != nil {
			out += bs(s.IntersectsPoly(poly))
		}
		return out
	}},
	{"Spatial.Distance*", func(a, b geojson.Object) string {
		s := a.Spatial()
		pt, rect, line, poly := geomArgs(b)
		out := fs(s.DistancePoint(pt)) + fs(s.DistanceRect(rect))
		if line != nil {
			out += fs(s.DistanceLine(line))
		}
		if poly != nil {
			out += fs(s.DistancePoly(poly))
		}
		return out
	}},
	{"Collection", func(a, b geojson.Object) string {
		col, ok := a.(geojson.Collection)
		if !ok {
			return "-"
		}
		var got []string
		col.Search(b.Rect(), func(ch geojson.Object) bool {
			got = append(got, fmt.Sprintf("%T%s", ch, rs(ch.Rect())))
			return true
		})
		sort.Strings(got)
		calls := 0
		col.Search(b.Rect(), func(geojson.Object) bool { calls++; return false })
		return fmt.Sprint(len(col.Children()), col.Indexed(), calls) + strings.Join(got, ";")
	}},
	{"Geometry", func(a, b geojson.Object) string {
		ga, gb := baseGeometry(a), baseGeometry(b)
		if ga == nil {
			return "-"
		}
		out := bs(ga.Empty()) + bs(ga.Valid()) + rs(ga.Rect())
		switch v := gb.(type) {
		case geometry.Point:
			out += bs(ga.ContainsPoint(v)) + bs(ga.IntersectsPoint(v))
		case geometry.Rect:
			out += bs(ga.ContainsRect(v)) + bs(ga.IntersectsRect(v))
		case *geometry.Line:
			out += bs(ga.ContainsLine(v)) + bs(ga.IntersectsLine(v))
		case *geometry.Poly:
			out += bs(ga.ContainsPoly(v)) + bs(ga.IntersectsPoly(v))
		default:
			out += bs(ga.ContainsRect(b.Rect())) + bs(ga.IntersectsPoint(b.Center()))
		}
		return out
	}},
	{"Series", func(a, b geojson.Object) string {
		var s geometry.Series
		switch v := a.(type) {
		case *geojson.LineString:
			s = v.Base()
		case *geojson.Polygon:
			s = v.Base().Exterior
		}
		if s == nil {
			return "-"
		}
		n := 0
		var idxs []int
		s.Search(b.Rect(), func(seg geometry.Segment, idx int) bool {
			n++
			idxs = append(idxs, idx)
			return n < 1000
		})
		sort.Ints(idxs)
		return fmt.Sprint(s.NumPoints(), s.NumSegments(), s.Convex(), s.Clockwise(), s.Empty(), s.Valid(), rs(s.Rect()), idxs, s.Index() != nil)
	}},
	{"Move", func(a, b geojson.Object) string {
		// Move returns a translated copy and must leave its receiver alone
		c := b.Center()
		switch v := baseGeometry(a).(type) {
		case *geometry.Line:
			mv := v.Move(3, -2)
			return rs(mv.Rect()) + bs(mv.IntersectsPoint(geometry.Point{X: c.X + 3, Y: c.Y - 2})) + bs(mv.IntersectsRect(b.Rect().Move(3, -2)))
		case *geometry.Poly:
			mv := v.Move(3, -2)
			return rs(mv.Rect()) + bs(mv.ContainsPoint(geometry.Point{X: c.X + 3, Y: c.Y - 2})) + bs(mv.IntersectsRect(b.Rect().Move(3, -2)))
		case geometry.Rect:
			return rs(v.Move(3, -2))
		case geometry.Point:
			return rs(v.Move(3, -2).Rect())
		}
		return "-"
	}},
	{"Circle", func(a, b geojson.Object) string {
		c, ok := a.(*geojson.Circle)
		if !ok {
			return "-"
		}
		return fs(c.Meters()) + fs(c.Haversine()) + fs(c.HaversineTo(b.Center())) + c.Polygon().JSON()
	}},
}
