package props

import (
	"encoding/json"
	"fmt"
	"math"
	"math/rand"

	"github.com/tidwall/geojson/geo"

	"verif/internal/mon"
	"verif/internal/sphere"
)

// C14: the bounding rectangle of a radius search covers the whole disc.

type c14Case struct {
	Lat, Lon, Meters float64
	Rect             []float64 `json:"rect_minLat_minLon_maxLat_maxLon"`
	Probe            []float64 `json:"probe_lat_lon,omitempty"`
	ProbeDist        float64   `json:"probe_reference_distance,omitempty"`
	OutsideBy        float64   `json:"outside_by_metres,omitempty"`
	Detail           string    `json:"detail,omitempty"`
}

func sampleRadius(r *rand.Rand, lat float64) float64 {
	switch r.Intn(10) {
	case 0:
		return 1 + r.Float64() // 1..2 m
	case 1:
		return math.Pow(10, r.Float64()*3-3) // below a metre: unresolvable ones included
	case 2: // disc just reaches a pole, +- a few ulps .. metres
		base := (90 - math.Abs(lat)) * math.Pi / 180 * sphere.R
		return math.Max(0, base+[]float64{0, 1e-9, -1e-9, 1e-6, -1e-6, 1e-3, -1e-3, 0.02, -0.02, 1, -1}[r.Intn(11)]*(1+r.Float64()))
	case 3:
		return piR - math.Pow(10, r.Float64()*7-1)
	case 4:
		return []float64{0, 1, 2, 10, 1000, 1e6, piR / 2, piR}[r.Intn(8)]
	default:
		return math.Pow(10, r.Float64()*7.3)
	}
}

func c14Run(c *mon.Ctx) {
	n := c.Pick(12000000, 250000000) / c.NShards
	r := c.Rng
	for i := 0; i < n; i++ {
		lat, lon := sampleLoc(r)
		m := sampleRadius(r, lat)
		if m > piR {
			m = piR
		}
		c14Tuple(c, r, lat, lon, m, i)
		if i%8 == 0 {
			// the answer for one call must not depend on the calls made before it:
			// same latitude and radius again at other longitudes, across the antimeridian and back
			for _, l2 := range []float64{179.9, -179.95, lon, 0, 180 - m/sphere.R*90/math.Pi, -lon} {
				if l2 >= -180 && l2 <= 180 {
					c14Tuple(c, r, lat, l2, m, i+7)
				}
			}
			c.Count("same_parallel_sequences")
		}
	}
}

// c14Tuple judges one (centre, radius) call.
func c14Tuple(c *mon.Ctx, r *rand.Rand, lat, lon, m float64, i int) {
	const cm = 0.01
	c.SetCase(func() interface{} { return c14Case{Lat: lat, Lon: lon, Meters: m} })
	c.Try(func() {
		minLat, minLon, maxLat, maxLon := geo.RectFromCenter(lat, lon, m)
		rect := []float64{minLat, minLon, maxLat, maxLon}
		c.Eval()
		mk := func(detail string) c14Case { return c14Case{Lat: lat, Lon: lon, Meters: m, Rect: rect, Detail: detail} }
		for _, v := range rect {
			if math.IsNaN(v) {
				c.Violation("nan", "RectFromCenter returned NaN", fmt.Sprintf("%+v", mk("")))
				return
			}
		}
		eps := 1e-9
		if minLat < -90-eps || maxLat > 90+eps || minLon < -180-eps || maxLon > 180+eps || minLat > maxLat || minLon > maxLon {
			c.Violation("bounds", "rectangle outside the world bounds or inverted", mk(""))
			return
		}
		if m < 1 {
			// below a metre nothing is claimed about coverage, but the answer is the degenerate rectangle at the
			// centre or a rectangle around it: the centre lies inside and the latitude extent is that of the disc
			c.Count("sub_metre_radii")
			if lat < minLat-eps || lat > maxLat+eps || lon < minLon-eps || lon > maxLon+eps {
				c.Violation("centre-outside", "sub-metre radius: the centre does not lie inside the returned rectangle", mk(""))
				return
			}
			if ext := maxLat - minLat; ext > 2*(m/sphere.R)*180/math.Pi+2e-7 {
				c.Violation("sub-metre-extent", "sub-metre radius: the rectangle is more than a centimetre taller than the disc", mk(fmt.Sprintf("latitude extent %g degrees", ext)))
			}
			return
		}
		rho := m / sphere.R
		// full longitude range when the disc reaches a pole by more than 1 cm
		reach := math.Abs(lat)*math.Pi/180 + rho - math.Pi/2
		if reach*sphere.R > cm {
			c.Count("discs_reaching_a_pole")
			if minLon > -180+1e-9 || maxLon < 180-1e-9 {
				c.Violation("pole-not-widened", "disc reaches a pole but the rectangle does not span all longitudes", mk(""))
				return
			}
		}
		// probes: rim at cardinal, random and tangent bearings, interior
		type probe struct{ lat, lon float64 }
		var ps []probe
		add := func(d, brg float64) {
			a, b := sphere.Dest(lat, lon, d, brg)
			ps = append(ps, probe{a, b})
		}
		rim := m * (1 - 1e-13)
		for _, b := range []float64{0, 90, 180, 270} {
			add(rim, b)
		}
		for k := 0; k < 8; k++ {
			add(rim, r.Float64()*360)
			add(m*math.Sqrt(r.Float64()), r.Float64()*360)
		}
		// tangent longitudes (the extremal east/west points), when the disc
		// does not reach a pole
		if reach < 0 {
			sl := math.Sin(lat * math.Pi / 180)
			latT := math.Asin(sl/math.Cos(rho)) * 180 / math.Pi
			dl := math.Asin(math.Sin(rho)/math.Cos(lat*math.Pi/180)) * 180 / math.Pi
			if !math.IsNaN(latT) && !math.IsNaN(dl) {
				for _, s := range []float64{1, -1} {
					for _, f := range []float64{1, 1 - 1e-12, 1 - 1e-9} {
						ps = append(ps, probe{latT, lon + s*dl*f})
					}
				}
				// bearings around the tangent bearing
				bt := sphere.Bearing(lat, lon, latT, lon+dl)
				for _, d := range []float64{0, 1e-6, -1e-6, 1e-3, -1e-3} {
					add(rim, bt+d)
					add(rim, 360-bt+d)
				}
			}
		}
		worst := 0.0
		for _, p := range ps {
			plon := p.lon
			for plon > 180 {
				plon -= 360
			}
			for plon < -180 {
				plon += 360
			}
			d := sphere.Dist(lat, lon, p.lat, plon)
			if d > m {
				continue // not a point of the disc: no claim
			}
			c.Count("probes_in_disc")
			// how far outside, on the ground
			out := 0.0
			if p.lat < minLat {
				out = math.Max(out, (minLat-p.lat)*math.Pi/180*sphere.R)
			}
			if p.lat > maxLat {
				out = math.Max(out, (p.lat-maxLat)*math.Pi/180*sphere.R)
			}
			cl := math.Cos(p.lat * math.Pi / 180)
			if cl*sphere.R > cm { // at the pole the longitude carries no information
				if plon < minLon || plon > maxLon {
					// longitude is periodic: distance to the nearer end of the interval
					ad := func(a, b float64) float64 { return math.Abs(math.Mod(a-b+540, 360) - 180) }
					out = math.Max(out, math.Min(ad(plon, minLon), ad(plon, maxLon))*math.Pi/180*sphere.R*cl)
				}
			}
			if out > worst {
				worst = out
			}
			if out > cm {
				cs := c14Case{Lat: lat, Lon: lon, Meters: m, Rect: rect, Probe: []float64{p.lat, plon}, ProbeDist: d, OutsideBy: out}
				if m < 2 && out < 0.03 {
					c.KnownOrViolation("F18", "not-covered", "radius 1-2 m: a rim point lies up to ~1.2 cm outside the rectangle (cancellation in acos)", cs)
				} else {
					c.Violation("not-covered", fmt.Sprintf("a location within the radius lies %.4g m outside the rectangle", out), cs)
				}
				break
			}
		}
		if reach*sphere.R > -1000 || m < 3 || 180-math.Abs(lon) < 1e-3 || piR-m < 1000 {
			c.NonTrivial(uint64(mon.NewH().U(math.Float64bits(lat)).U(math.Float64bits(lon)).U(math.Float64bits(m))))
		}
		if i < 3 && c.WantSample() {
			c.Sample(c14Case{Lat: lat, Lon: lon, Meters: m, Rect: rect, Detail: fmt.Sprintf("%d probes, worst outside-by %.3g m", len(ps), worst)})
		}
	})
}

func c14Replay(kind string, raw json.RawMessage) (bool, string) {
	var cs c14Case
	if err := json.Unmarshal(raw, &cs); err != nil {
		return false, "recorded case is not structured (it contained NaN): " + string(raw)
	}
	minLat, minLon, maxLat, maxLon := geo.RectFromCenter(cs.Lat, cs.Lon, cs.Meters)
	rect := []float64{minLat, minLon, maxLat, maxLon}
	for _, v := range rect {
		if math.IsNaN(v) {
			return true, fmt.Sprintf("rectangle %v has NaN", rect)
		}
	}
	if minLat < -90-1e-9 || maxLat > 90+1e-9 || minLon < -180-1e-9 || maxLon > 180+1e-9 {
		return true, fmt.Sprintf("rectangle %v outside the world bounds", rect)
	}
	if len(cs.Probe) == 2 {
		pl, pn := cs.Probe[0], cs.Probe[1]
		d := sphere.Dist(cs.Lat, cs.Lon, pl, pn)
		out := 0.0
		if pl < minLat {
			out = (minLat - pl) * math.Pi / 180 * sphere.R
		}
		if pl > maxLat {
			out = math.Max(out, (pl-maxLat)*math.Pi/180*sphere.R)
		}
		cl := math.Cos(pl * math.Pi / 180)
		if pn < minLon || pn > maxLon {
			ad := func(a, b float64) float64 { return math.Abs(math.Mod(a-b+540, 360) - 180) }
			out = math.Max(out, math.Min(ad(pn, minLon), ad(pn, maxLon))*math.Pi/180*sphere.R*cl)
		}
		return d <= cs.Meters && out > 0.01, fmt.Sprintf("rectangle %v; probe at reference distance %.6f of radius %.6f lies %.4g m outside", rect, d, cs.Meters, out)
	}
	return false, fmt.Sprintf("rectangle %v", rect)
}

func init() {
	mon.Register(&mon.Prop{
		ID:          "C14",
		Rule:        "random (centre, radius) with centres biased to the poles and the antimeridian and radii from {1-2 m, sub-metre, 'disc just reaches the pole' +- nanometres..metres, near half the circumference, boundary values, log-uniform 1 m..20000 km}; each rectangle is checked for NaN and world bounds, for full longitude range when the reference disc reaches a pole by more than 1 cm, and against ~30 reference probes of the disc (cardinal, random and tangent-longitude rim points at several offsets, interior points), each of which must lie inside the rectangle within 1 cm on the ground. A probe counts only if its reference distance from the centre is at most the radius. Non-trivial = distinct tuple near a singular place (disc within 1 km of reaching a pole, radius below 3 m or within 1 km of half the circumference, centre within 0.001 degree of the antimeridian).",
		Assumptions: []string{"reference: internal/sphere", "no tightness is demanded of the rectangle, only coverage", "known finding F18 (radius below 2 m, overshoot below 3 cm) is matched with both bounds"},
		Run:         c14Run,
		Replay:      c14Replay,
		MustSee:     []string{"probes_in_disc", "discs_reaching_a_pole", "sub_metre_radii", "same_parallel_sequences"},
	})
}
