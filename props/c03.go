package props

import (
	"bufio"
	"encoding/json"
	"fmt"
	"os"
	"path/filepath"
	"sort"

	"verif/internal/exact"
	"verif/internal/mon"
)

// C03: Contains/Within is exact planar containment.

type snapWriter struct {
	w *bufio.Writer
	f *os.File
}

var c03Snap *snapWriter

func openSnap(c *mon.Ctx) {
	if os.Getenv("VERIF_SNAPSHOT") == "" || c03Snap != nil {
		return
	}
	f, err := os.Create(filepath.Join(c.OutDir, fmt.Sprintf("snap%02d.txt", c.Shard)))
	if err != nil {
		panic(err)
	}
	c03Snap = &snapWriter{w: bufio.NewWriterSize(f, 1<<20), f: f}
}

func closeSnap() {
	if c03Snap != nil {
		c03Snap.w.Flush()
		c03Snap.f.Close()
		c03Snap = nil
	}
}

// containsKey hashes the exact input of one enumerated containment call.
func containsKey(op string, a, b *exact.Shape, closedA bool, ic IdxCfg, got bool) uint64 {
	h := mon.NewH().S(op)
	h = hashShape(h, a)
	h = hashShape(h, b)
	return uint64(h.B(closedA).S(ic.String()).B(got))
}

func c03Judge(c *mon.Ctx, a, b *exact.Shape, family string, corpus, closedA bool, cfgs []IdxCfg, objLevel, scaled bool) {
	want := exact.Contains(a, b)
	if want && !exact.Intersects(a, b) {
		panic("oracle self-check: contains without intersects")
	}
	c.SetCase(func() interface{} { return pairCase(a, b, map[string]interface{}{"family": family}) })
	c.Try(func() {
		for _, ic := range cfgs {
			la, lb := buildLib(a, ic, closedA), buildLib(b, ic, !closedA)
			var got bool
			ev := traced(func() { got = gContains(la, lb) })
			c.Eval()
			for _, e := range ev {
				c.Count("site " + e.Fn + "/" + e.Site)
			}
			if objLevel {
				oc, ow := la.obj.Contains(lb.obj), lb.obj.Within(la.obj)
				if oc != got || ow != got {
					c.Violation("contains-object", fmt.Sprintf("%s/%s: object-level Contains=%v Within=%v, geometry-level %v", a.Kind, b.Kind, oc, ow, got),
						pairCase(a, b, map[string]interface{}{"family": family, "index": ic.String(), "closed_a": closedA, "want": want}))
				}
			}
			if got == want {
				continue
			}
			at := attribute(ev)
			{
				keys := map[string]bool{}
				for _, le := range at.Disagreeing {
					keys[le.Key()] = true
				}
				ks := ""
				for _, k := range sortedKeys(keys) {
					ks += " " + k
				}
				if ks == "" {
					ks = " (no disagreeing leaf)"
				}
				fam := family
				if corpus {
					fam = "corpus"
				}
				c.Count(fmt.Sprintf("wrong %s>%s got=%v %s:%s", a.Kind, b.Kind, got, fam, ks))
			}
			h := containsKey("contains", a, b, closedA, ic, got)
			cs := pairCase(a, b, map[string]interface{}{"family": family, "index": ic.String(), "closed_a": closedA, "got": got, "want": want, "attribution": at})
			if c03Snap != nil {
				if g := entryGuess(at); g != "" {
					if corpus {
						fmt.Fprintf(c03Snap.w, "H %s %016x\n", g, h)
					}
					for _, le := range at.Disagreeing {
						fmt.Fprintf(c03Snap.w, "K %s %s\n", g, le.Key())
					}
					c.Count("snapshot_recorded")
					continue
				}
			}
			// composition finding F24: B's boundary lies in A and B covers a
			// hole of A without its boundary passing through the hole's interior
			if got && !want && len(at.Disagreeing) == 0 && a.Kind == exact.KPoly && len(a.Holes) > 0 && b.HasInterior() && boundaryInside(a, b) {
				c.KnownOrViolation("F24", "contains covered-hole", fmt.Sprintf("%s contains %s: library true, exact false: B covers a hole of A", a.Kind, b.Kind), cs)
				continue
			}
			id, why := classifyWrong(at, corpus, h)
			detail := fmt.Sprintf("%s contains %s: library %v, exact %v (%s)", a.Kind, b.Kind, got, want, why)
			vk := fmt.Sprintf("contains %s-%s got-%v", a.Kind, b.Kind, got)
			if len(at.Disagreeing) == 0 {
				vk += " composition"
			} else {
				vk += " " + at.Disagreeing[0].Fn + "-" + at.Disagreeing[0].Site
			}
			if id != "" {
				c.KnownOrViolation(id, vk, detail, cs)
			} else {
				c.Violation(vk, detail, cs)
			}
		}
	})
	if scaled && c03Snap == nil {
		enc := allEncs[int(uint64(hashShape(mon.NewH(), b))%uint64(len(allEncs)))]
		sc := enc.Name
		c.Try(func() {
			ic := cfgs[int(uint64(hashShape(mon.NewH(), a))%uint64(len(cfgs)))]
			la, lb := buildLibEnc(a, ic, closedA, enc), buildLibEnc(b, ic, !closedA, enc)
			var got bool
			ev := traced(func() { got = gContains(la, lb) })
			c.Eval()
			c.Count("scaled_pairs")
			if got == want {
				return
			}
			at := attributeEnc(ev, enc)
			// the library's behaviour is exactly scale invariant, so the same keys and the same corpus hash apply
			h := containsKey("contains", a, b, closedA, ic, got)
			cs := pairCase(a, b, map[string]interface{}{"family": family, "index": ic.String(), "closed_a": closedA, "scale": sc, "got": got, "want": want, "attribution": at})
			if got && !want && len(at.Disagreeing) == 0 && a.Kind == exact.KPoly && len(a.Holes) > 0 && b.HasInterior() && boundaryInside(a, b) {
				c.KnownOrViolation("F24", "contains covered-hole", "B covers a hole of A (scaled)", cs)
				return
			}
			detail := fmt.Sprintf("%s contains %s under the exact encoding %s: library %v, exact %v", a.Kind, b.Kind, sc, got, want)
			if id, _ := classifyWrong(at, corpus, h); id != "" {
				c.KnownOrViolation(id, "contains-scaled", detail, cs)
			} else {
				c.Violation("contains-scaled", detail, cs)
			}
		})
	}
	c.Count(fmt.Sprintf("pairs_%s_%s", a.Kind, b.Kind))
	if want {
		c.Count(fmt.Sprintf("true_%s_%s", a.Kind, b.Kind))
	}
}

func boxInside(a, b *exact.Shape) bool {
	amn, amx := shapeBox(a)
	bmn, bmx := shapeBox(b)
	return bmn.X >= amn.X && bmx.X <= amx.X && bmn.Y >= amn.Y && bmx.Y <= amx.Y
}

func c03Run(c *mon.Ctx) {
	loadContainmentKnown(c)
	openSnap(c)
	defer closeSnap()
	o := pairOpts{corpusVariants: c.Pick(4, 8), halfLattice: c.Thorough(), large: c.Pick(150000, 3000000), random: c.Pick(1200000, 25000000)}
	if os.Getenv("VERIF_SNAPSHOT") == "corpus" {
		o = pairOpts{corpusVariants: 8, halfLattice: true, random: 0}
	}
	item := 0
	sink := func(a, b *exact.Shape, family string, corpus, closedA bool, n int) {
		cfgs := baseIdx
		if !corpus {
			cfgs = idxFor(max(len(a.Ext), len(a.Pts)), n)
		}
		c03Judge(c, a, b, family, corpus, closedA, cfgs, !corpus || item%7 == 0, (corpus && item%3 == 0) || (!corpus && n%4 == 0))
		if boxInside(a, b) {
			c.NonTrivial(uint64(hashShape(hashShape(mon.NewH(), a), b)))
		}
		if !corpus && n%100000 == 23 && c.WantSample() {
			c.Sample(pairCase(a, b, map[string]interface{}{"family": family, "exact_contains": exact.Contains(a, b)}))
		}
	}
	corpusPairs(c, o, &item, sink)
	c.Count("corpus_done")
	randomPairs(c, o, &item, sink)
	largePairs(c, o, &item, sink)
	c.Count("large_done")
}

func c03Replay(kind string, raw json.RawMessage) (bool, string) {
	a, b, m, ok := parsePairCase(raw)
	if !ok {
		return false, "cannot decode case"
	}
	var closedA bool
	json.Unmarshal(m["closed_a"], &closedA)
	want := exact.Contains(a, b)
	bad := false
	var out []string
	for _, ic := range baseIdx {
		la, lb := buildLib(a, ic, closedA), buildLib(b, ic, !closedA)
		g := gContains(la, lb)
		oc, ow := la.obj.Contains(lb.obj), lb.obj.Within(la.obj)
		if g != want || oc != want || ow != want {
			bad = true
		}
		out = append(out, fmt.Sprintf("%s: %v %v %v", ic, g, oc, ow))
	}
	return bad, fmt.Sprintf("exact=%v; %v (known findings are not consulted by replay)", want, out)
}

func init() {
	must := []string{"corpus_done", "scaled_pairs"}
	for _, ka := range kinds4 {
		for _, kb := range kinds4 {
			must = append(must, fmt.Sprintf("pairs_%s_%s", ka, kb))
		}
	}
	mon.Register(&mon.Prop{
		ID:          "C03",
		Rule:        "same workload shape as C02: fixed contact corpus (16 rings x 4 variants quick / 8 thorough, as polygon and as hole of a frame, x every segment, point, rectangle and triangle family of the lattice around the ring) under {no index, R-tree@1, quadtree@1}, plus random contact-biased valid pairs of all 16 kind combinations (hole families, shapes made from pieces of the other shape in both directions). Each geometry-level answer is compared with exact containment; every call is traced through the decision-site hook, and a wrong answer is attributed to the leaf decisions that disagree with their own oracle. Object-level Contains/Within must equal the geometry-level answer. Non-trivial = distinct pair where B's box lies inside A's box.",
		Assumptions: []string{"valid shapes on the exact coordinate domain", "oracle: internal/exact.Contains (skeleton pieces + rational cut points in math/big)", "known findings F4/F5 are matched by the committed corpus snapshot on enumerated cases and by (function, return site, answer, allowOnEdge) on random cases; anything else is a violation"},
		Run:         c03Run,
		MustSee:     must,
		Replay:      c03Replay,
	})
}

func sortedKeys(m map[string]bool) []string {
	var out []string
	for k := range m {
		out = append(out, k)
	}
	sort.Strings(out)
	return out
}

// boundaryInside: every skeleton segment of b lies in a (so a failed
// containment can only be due to a hole of a whose interior is inside b).
func boundaryInside(a, b *exact.Shape) bool {
	sk := a.Skeleton()
	for _, s := range b.Skeleton() {
		if !exact.SegIn(a, sk, s.A, s.B) {
			return false
		}
	}
	return true
}
