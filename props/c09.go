package props

import (
	"fmt"
	"math"
	"math/rand"

	"github.com/tidwall/geojson"
	"github.com/tidwall/geojson/geo"
	"github.com/tidwall/geojson/geometry"

	"verif/internal/exact"
	"verif/internal/gen"
	"verif/internal/mon"
)

// C09: object-level predicates form a consistent algebra across all kinds.

var kinds12 = []string{"Point", "SimplePoint", "LineString", "Polygon", "Rect", "Circle", "MultiPoint", "MultiLineString", "MultiPolygon", "GeometryCollection", "Feature", "FeatureCollection"}

func nodeFromShape(s *exact.Shape, simple bool) *Node {
	switch s.Kind {
	case exact.KPoint:
		if simple {
			return nSimplePoint(gpt(s.Pts[0]))
		}
		return nPoint(gpt(s.Pts[0]))
	case exact.KRect:
		return nRect(gpt(s.Pts[0]), gpt(s.Pts[1]))
	case exact.KLine:
		return nLine(gpts(s.Pts))
	}
	rings := [][]geometry.Point{gpts(closeRing(s.Ext))}
	for _, h := range s.Holes {
		rings = append(rings, gpts(closeRing(h)))
	}
	return nPoly(rings...)
}

// c09Node draws an object of the given kind near the anchor shape.
func c09Node(r *rand.Rand, kind string, anchor *exact.Shape, depth int) *Node {
	leaf := func(k exact.Kind) *Node { return nodeFromShape(gen.RandShapeNear(r, k, anchor, 1), false) }
	nk := func() int {
		switch r.Intn(6) {
		case 0:
			return 0
		case 1:
			return 1
		}
		return 2 + r.Intn(3)
	}
	switch kind {
	case "Point":
		return leaf(exact.KPoint)
	case "SimplePoint":
		return nodeFromShape(gen.RandShapeNear(r, exact.KPoint, anchor, 0), true)
	case "LineString":
		return leaf(exact.KLine)
	case "Polygon":
		return leaf(exact.KPoly)
	case "Rect":
		return leaf(exact.KRect)
	case "Circle":
		xs, ys := gen.Coords(anchor)
		p := gen.BiasedPoint(r, xs, ys, 3)
		meters := []float64{30000, 60000, 111000, 180000, 250000}[r.Intn(5)]
		return nCircle(gpt(p), meters, 64)
	case "MultiPoint":
		n := &Node{Kind: kind}
		for i := nk(); i > 0; i-- {
			n.Children = append(n.Children, leaf(exact.KPoint))
		}
		return n
	case "MultiLineString":
		n := &Node{Kind: kind}
		for i := nk(); i > 0; i-- {
			n.Children = append(n.Children, leaf(exact.KLine))
		}
		return n
	case "MultiPolygon":
		n := &Node{Kind: kind}
		for i := nk(); i > 0; i-- {
			n.Children = append(n.Children, leaf(exact.KPoly))
		}
		return n
	case "Feature":
		ck := kinds12[r.Intn(len(kinds12))]
		if depth >= 2 || ck == "Circle" {
			ck = []string{"Point", "LineString", "Polygon", "MultiPoint", "MultiPolygon"}[r.Intn(5)]
		}
		return nFeature(c09Node(r, ck, anchor, depth+1))
	default: // GeometryCollection, FeatureCollection
		n := &Node{Kind: kind}
		for i := nk(); i > 0; i-- {
			ck := kinds12[r.Intn(len(kinds12))]
			if depth >= 2 {
				ck = []string{"Point", "LineString", "Polygon", "Rect", "MultiPoint"}[r.Intn(5)]
			}
			if ck == "Circle" {
				ck = "Polygon"
			}
			if kind == "FeatureCollection" && r.Intn(3) != 0 {
				ck = "Feature"
			}
			n.Children = append(n.Children, c09Node(r, ck, anchor, depth+1))
		}
		return n
	}
}

// hasFeatureWrappedCollection: some Feature in the tree wraps a collection
// (the F15 key), or wraps a Feature.
func hasFeatureWrappedCollection(n *Node) bool {
	found := false
	n.Walk(func(m *Node) {
		if m.Kind == "Feature" && (m.Children[0].IsCollection() || m.Children[0].Kind == "Feature") {
			found = true
		}
	})
	return found
}

func hasKind(n *Node, kind string) bool {
	found := false
	n.Walk(func(m *Node) {
		if m.Kind == kind {
			found = true
		}
	})
	return found
}

// circleBandClear reports whether every position of other is clearly inside
// or clearly outside every circle of n (so that the exact-distance path and
// the polygon-approximation path must agree).
func circleBandClear(n, other *Node) bool {
	ok := true
	n.Walk(func(m *Node) {
		if m.Kind != "Circle" {
			return
		}
		c := m.Rings[0][0]
		rr := m.Meters / 6371e3
		band := 0.02 + 2.5*math.Tan((math.Abs(c.Y)*math.Pi/180)+rr)*rr
		check := func(p geometry.Point, rad float64) {
			d := geo.DistanceTo(c.Y, c.X, p.Y, p.X)
			if math.Abs(d-rad)/rad < band || math.Abs(d+rad-m.Meters)/m.Meters < band && rad != m.Meters || math.Abs(d-rad-m.Meters)/m.Meters < band {
				ok = false
			}
		}
		other.Walk(func(o *Node) {
			if o.Kind == "Circle" {
				p := o.Rings[0][0]
				d := geo.DistanceTo(c.Y, c.X, p.Y, p.X)
				// tangency (inner or outer) of the two circles
				for _, t := range []float64{m.Meters + o.Meters, math.Abs(m.Meters - o.Meters)} {
					if t > 0 && math.Abs(d-t)/math.Max(m.Meters, o.Meters) < 2*band {
						ok = false
					}
				}
				if m != o && d == 0 && m.Meters == o.Meters {
					// coincident circles: decided by the equality branch, fine
				}
				return
			}
			for _, p := range o.Positions(false, nil) {
				check(p, m.Meters)
			}
			if o.Kind == "Rect" {
				mn, mx := o.Rings[0][0], o.Rings[0][1]
				check(geometry.Point{X: mn.X, Y: mx.Y}, m.Meters)
				check(geometry.Point{X: mx.X, Y: mn.Y}, m.Meters)
			}
		})
	})
	return ok
}

type c09Case struct {
	A      interface{} `json:"a"`
	B      interface{} `json:"b"`
	Law    string      `json:"law"`
	Detail string      `json:"detail"`
}

type tri struct{ c, w, i bool }

func evalTri(a, b geojson.Object) tri { return tri{a.Contains(b), a.Within(b), a.Intersects(b)} }

func rectCovers(a, b geometry.Rect) bool {
	return b.Min.X >= a.Min.X && b.Max.X <= a.Max.X && b.Min.Y >= a.Min.Y && b.Max.Y <= a.Max.Y
}

func rectsMeet(a, b geometry.Rect) bool {
	return !(a.Min.X > b.Max.X || a.Max.X < b.Min.X || a.Min.Y > b.Max.Y || a.Max.Y < b.Min.Y)
}

func c09Pair(c *mon.Ctx, na, nb *Node, oa, ob geojson.Object) {
	pk := na.Kind + ">" + nb.Kind
	bad := func(law, detail string) {
		c.Violation(law+" "+pk, detail, c09Case{A: na.Describe(), B: nb.Describe(), Law: law, Detail: detail})
	}
	// consequences of a contains answer: when they fail, the contains call is
	// re-run under the tracer and attributed before it is reported
	badContains := func(law, detail string) {
		var got bool
		ev := traced(func() { got = oa.Contains(ob) })
		_ = got
		at := attribute(ev)
		if id, _ := classifyWrong(at, false, 0); id != "" {
			c.KnownOrViolation(id, law+" "+pk, detail, c09Case{A: na.Describe(), B: nb.Describe(), Law: law, Detail: detail})
			return
		}
		bad(law, detail)
	}
	ab, ba := evalTri(oa, ob), evalTri(ob, oa)
	c.Eval()
	if ab.c {
		c.Count("contains_true " + pk)
	} else {
		c.Count("contains_false " + pk)
	}
	if ab.i {
		c.Count("intersects_true " + pk)
	} else {
		c.Count("intersects_false " + pk)
	}
	// duality and symmetry
	if ab.w != ba.c || ba.w != ab.c {
		bad("within-contains-duality", fmt.Sprintf("A.Within(B)=%v B.Contains(A)=%v B.Within(A)=%v A.Contains(B)=%v", ab.w, ba.c, ba.w, ab.c))
	}
	if ab.i != ba.i {
		bad("intersects-symmetry", fmt.Sprintf("A.Intersects(B)=%v B.Intersects(A)=%v", ab.i, ba.i))
	}
	// contains => intersects and rect covers
	if ab.c && !ob.Empty() {
		if !ab.i {
			badContains("contains-implies-intersects", "A contains non-empty B but A.Intersects(B) is false")
		}
		if !rectCovers(oa.Rect(), ob.Rect()) {
			badContains("contains-implies-rect-covers", fmt.Sprintf("A contains non-empty B but rect %v does not cover %v", oa.Rect(), ob.Rect()))
		}
	}
	if ab.i && !rectsMeet(oa.Rect(), ob.Rect()) {
		bad("intersects-implies-rects-meet", fmt.Sprintf("A intersects B but rects %v %v are disjoint", oa.Rect(), ob.Rect()))
	}
}

// c09Self: a non-empty valid object contains and intersects itself.
func c09Self(c *mon.Ctx, n *Node, o geojson.Object) {
	if o.Empty() || !o.Valid() {
		return
	}
	c.Eval()
	c.Count("self " + n.Kind)
	cs := c09Case{A: n.Describe(), B: "(the same object)", Law: "self"}
	if !o.Intersects(o) {
		c.Violation("self-intersects", "a non-empty valid object does not intersect itself", cs)
	}
	if !o.Contains(o) {
		switch {
		case hasKind(n, "LineString") || hasKind(n, "MultiLineString"):
			c.KnownOrViolation("F4", "self-contains", "a non-empty valid object does not contain itself (line/line walk)", cs)
		case hasFeatureWrappedCollection(n):
			c.KnownOrViolation("F15", "self-contains", "a non-empty valid object does not contain itself (Feature wrapping a collection is not descended into)", cs)
		default:
			c.Violation("self-contains", "a non-empty valid object does not contain itself", cs)
		}
	}
}

// c09Transparent: wrappers and alternative representations answer alike.
func c09Transparent(c *mon.Ctx, na, nb *Node, oa, ob geojson.Object) {
	alts := []struct {
		name string
		obj  geojson.Object
	}{{"Feature(A)", geojson.NewFeature(oa, "")}}
	switch na.Kind {
	case "Rect":
		mn, mx := na.Rings[0][0], na.Rings[0][1]
		ring := []geometry.Point{mn, {X: mx.X, Y: mn.Y}, mx, {X: mn.X, Y: mx.Y}, mn}
		alts = append(alts, struct {
			name string
			obj  geojson.Object
		}{"five-point Polygon", geojson.NewPolygon(geometry.NewPoly(ring, nil, nil))})
	case "Point":
		alts = append(alts, struct {
			name string
			obj  geojson.Object
		}{"SimplePoint", geojson.NewSimplePoint(na.Rings[0][0])})
	case "SimplePoint":
		alts = append(alts, struct {
			name string
			obj  geojson.Object
		}{"Point", geojson.NewPoint(na.Rings[0][0])})
	}
	base1, base2 := evalTri(oa, ob), evalTri(ob, oa)
	for _, alt := range alts {
		g1, g2 := evalTri(alt.obj, ob), evalTri(ob, alt.obj)
		c.Eval()
		c.Count("transparency " + alt.name)
		if g1 != base1 || g2 != base2 {
			detail := fmt.Sprintf("%s vs A: as receiver %+v vs %+v, as argument %+v vs %+v", alt.name, g1, base1, g2, base2)
			cs := c09Case{A: na.Describe(), B: nb.Describe(), Law: "transparency " + alt.name, Detail: detail}
			if alt.name == "Feature(A)" && na.IsCollection() && nb.IsCollection2OrCollection() {
				c.KnownOrViolation("F15", "transparency", detail, cs)
				continue
			}
			c.Violation("transparency "+alt.name, detail, cs)
		}
	}
}

// IsCollection2OrCollection: a collection, possibly wrapped in Features.
func (n *Node) IsCollection2OrCollection() bool {
	if n.Kind == "Feature" {
		return n.Children[0].IsCollection2OrCollection()
	}
	return n.IsCollection()
}

func c09Run(c *mon.Ctx) {
	loadContainmentKnown(c)
	n := c.Pick(2000000, 30000000)
	for i := 0; i < n; i++ {
		if !c.Mine(i) {
			continue
		}
		r := c.SubRng("pair", i)
		ka, kb := kinds12[i%12], kinds12[(i/12)%12]
		anchor := gen.RandShape(r, exact.KPoly, 1)
		na, nb := c09Node(r, ka, anchor, 0), c09Node(r, kb, anchor, 0)
		c.SetCase(func() interface{} { return c09Case{A: na.Describe(), B: nb.Describe()} })
		c.Try(func() {
			var ic *geometry.IndexOptions
			switch i % 3 {
			case 1:
				ic = &geometry.IndexOptions{Kind: geometry.RTree, MinPoints: 1}
			case 2:
				ic = &geometry.IndexOptions{Kind: geometry.None}
			}
			oa, ob := na.Build(ic), nb.Build(ic)
			if i%4 == 0 && na.Parseable() && nb.Parseable() {
				po := &geojson.ParseOptions{IndexChildren: i % 3, IndexGeometry: 1 + i%2, IndexGeometryKind: geometry.IndexKind(i % 3), AllowSimplePoints: i%8 == 0, AllowRects: i%8 == 4}
				na.DecorateBBoxes(r)
				nb.DecorateBBoxes(r)
				pa, e1 := geojson.Parse(na.JSON(), po)
				pb, e2 := geojson.Parse(nb.JSON(), po)
				if e1 == nil && e2 == nil {
					oa, ob = pa, pb
					c.Count("parsed_pairs")
				}
			}
			circ := hasKind(na, "Circle") || hasKind(nb, "Circle")
			if circ && !(circleBandClear(na, nb) && circleBandClear(nb, na)) {
				c.Inconclusive("a position lies in the band where the circle's exact-distance and polygon-approximation paths may differ")
				return
			}
			c09Pair(c, na, nb, oa, ob)
			c09Self(c, na, oa)
			if !circ {
				c09Transparent(c, na, nb, oa, ob)
			}
			if rectsMeet(oa.Rect(), ob.Rect()) {
				c.NonTrivial(uint64(mon.NewH().S(oa.JSON()).S(ob.JSON())))
			}
		})
		if i < 200 && i%16 == c.Shard && i%5 == 0 && c.WantSample() {
			c.Sample(c09Case{A: na.Describe(), B: nb.Describe()})
		}
	}
	// a SimplePoint answers exactly as the equivalent Point, also against a
	// Circle and right at its rim (no tolerance: both must take the same path)
	np := c.Pick(200000, 4000000)
	for i := 0; i < np; i++ {
		if !c.Mine(i) {
			continue
		}
		r := c.SubRng("rim", i)
		cen := geometry.Point{X: float64(r.Intn(41) - 20), Y: float64(r.Intn(81) - 40)}
		m := []float64{500, 30000, 111000, 250000}[r.Intn(4)]
		ratio := []float64{0.5, 0.99, 0.9995, 0.99999, 1, 1.00001, 1.0005, 1.01, 2}[r.Intn(9)]
		brg := float64(r.Intn(64))*360/64 + []float64{0, 360.0 / 128, r.Float64() * 360 / 64}[r.Intn(3)]
		// a point at the given fraction of the radius (flat-earth offset is good enough to land near the rim)
		dy := m * ratio / 111194.9 * math.Cos(brg*math.Pi/180)
		dx := m * ratio / 111194.9 * math.Sin(brg*math.Pi/180) / math.Cos(cen.Y*math.Pi/180)
		p := geometry.Point{X: cen.X + dx, Y: cen.Y + dy}
		c.SetCase(func() interface{} {
			return c09Case{A: nCircle(cen, m, 64).Describe(), B: nPoint(p).Describe(), Law: "SimplePoint vs Point"}
		})
		c.Try(func() {
			circ := geojson.NewCircle(cen, m, 64)
			pt, sp := geojson.NewPoint(p), geojson.NewSimplePoint(p)
			c.Eval()
			c.Count("circle_rim_point_pairs")
			a, b := evalTri(circ, pt), evalTri(circ, sp)
			a2, b2 := evalTri(pt, circ), evalTri(sp, circ)
			// a point well inside the circle (at most 0.99 of the radius: far more than the 64-gon's deficit) that the
			// circle contains must lie in the circle's own rectangle; consecutive circles here share one of four radii
			// at latitudes between -40 and 40 (added after seeded change C09-p, which cached the polygon's offsets by
			// radius and step count only, so that a circle inherited the width computed at another latitude)
			if ratio <= 0.99 && a.c {
				c.Count("circle_contains_point_rect_checked")
				if rc := circ.Rect(); !(rc.Min.X <= p.X && p.X <= rc.Max.X && rc.Min.Y <= p.Y && p.Y <= rc.Max.Y) {
					c.Violation("contains-implies-rect-covers (circle)", fmt.Sprintf("the circle contains the point (%.4g of the radius from the centre) but its rectangle %v does not cover it", ratio, rc),
						c09Case{A: nCircle(cen, m, 64).Describe(), B: nPoint(p).Describe(), Law: "A contains non-empty B => rect(A) covers rect(B)"})
				}
			}
			if a != b || a2 != b2 {
				c.Violation("transparency SimplePoint near a circle's rim", fmt.Sprintf("Circle vs Point %+v / %+v, Circle vs SimplePoint %+v / %+v", a, a2, b, b2),
					c09Case{A: nCircle(cen, m, 64).Describe(), B: nPoint(p).Describe(), Law: "SimplePoint answers as the equivalent Point"})
			}
		})
	}
	// leaf objects answer as the geometry-level predicates on their base geometry
	m := c.Pick(600000, 10000000)
	for i := 0; i < m; i++ {
		if !c.Mine(i) {
			continue
		}
		r := c.SubRng("leaf", i)
		a := gen.RandShape(r, kinds4[i%4], 2)
		b := gen.RandShapeNear(r, kinds4[(i/4)%4], a, 2)
		c.SetCase(func() interface{} { return pairCase(a, b, nil) })
		c.Try(func() {
			la, lb := buildLib(a, baseIdx[i%3], i%2 == 0), buildLib(b, baseIdx[i%3], i%2 == 1)
			c.Eval()
			c.Count("leaf_vs_geometry")
			if la.obj.Contains(lb.obj) != gContains(la, lb) || la.obj.Intersects(lb.obj) != gIntersects(la, lb) || lb.obj.Within(la.obj) != gContains(la, lb) {
				c.Violation("leaf-vs-geometry", "a leaf object answers differently from the geometry-level predicate on its base geometry", pairCase(a, b, nil))
			}
		})
	}
}

func init() {
	must := []string{"circle_rim_point_pairs", "leaf_vs_geometry", "parsed_pairs", "transparency Feature(A)", "transparency five-point Polygon", "transparency SimplePoint"}
	for _, k := range kinds12 {
		must = append(must, "self "+k)
	}
	mon.Register(&mon.Prop{
		ID:          "C09",
		Rule:        "ordered pairs of objects of all 12 x 12 kind combinations, contents drawn contact-biased around a common anchor polygon on the exact lattice (valid shapes, collections of 0-4 children, nesting <= 3, Features wrapping any kind), built through the constructors under three index settings or through Parse under varying options; laws checked literally: within/contains duality, symmetry of intersects, contains-nonempty => intersects and rect covers, intersects => rects meet, non-empty valid => contains and intersects itself; transparency of Feature, Rect vs five-point Polygon, SimplePoint vs Point, leaf object vs geometry-level predicate. Pairs with a Circle are asserted only when every position of the partner is clearly inside or outside the circle (band scaled with radius and latitude), otherwise counted inconclusive. Non-trivial = distinct pair whose rectangles meet.",
		Assumptions: []string{"oracle-free algebraic laws", "self-containment failures are attributed to F4 (objects containing line strings) or F15 (a Feature wrapping a collection), anything else is a violation"},
		Run:         c09Run,
		MustSee:     must,
	})
}
