#!/bin/bash
# usage: tools/seedscratch.sh <seed dir> [check ids...]   (development aid)
# like seedtest.sh, but runs the checks against a scratch worktree (/tmp/vseed2) through VERIF_REPO, leaving /repo alone
export GOFLAGS=-mod=mod GOPROXY=off GOSUMDB=off GOTOOLCHAIN=local
SD=$(realpath "$1"); shift
W=/tmp/vseed2
[ -d $W ] || git -C /repo worktree add -q --detach $W HEAD
git -C $W checkout -q --detach $(git -C /repo rev-parse HEAD) 2>/dev/null
git -C $W checkout -q -- . ; git -C $W clean -fdq
LOC=$(tr -d ' \n' < $SD/DEMO_LOCATION.txt); [ -z "$LOC" ] && LOC=.
RACE=""; grep -qi -- "-race" $SD/meta.json && RACE="-race"
git -C $W apply $SD/patch.diff || { echo "SEED patch does not apply"; exit 3; }
( cd $W && go build ./... ) || { echo "SEED does not build"; exit 3; }
SUITE=$(cd $W && go test -vet=off -count=1 ./... 2>&1 | grep -E "^(FAIL|ok|---)" | grep -c "^FAIL")
for f in $SD/demo_*_test.go*; do b=$(basename $f); cp $f $W/$LOC/${b%.txt}; done
DEMO_WITH=$(cd $W && timeout 300 go test $RACE -vet=off -count=1 ./$LOC 2>&1 | grep -E "^(FAIL|ok)" | head -1 | cut -c1-40)
git -C $W apply -R $SD/patch.diff
DEMO_WITHOUT=$(cd $W && timeout 300 go test $RACE -vet=off -count=1 ./$LOC 2>&1 | grep -E "^(FAIL|ok)" | head -1 | cut -c1-40)
git -C $W checkout -q -- . ; git -C $W clean -fdq
echo "CONFIRM suite_failures_with_patch=$SUITE demo_with_patch=[$DEMO_WITH] demo_without_patch=[$DEMO_WITHOUT]"
git -C $W apply $SD/patch.diff
for id in "$@"; do
  OUT=$(VERIF_REPO=$W /verif/check.sh $id quick 2>&1)
  echo "CHECK(scratch) $id exit=$? $(echo "$OUT" | grep -c '^VIOLATION') violation lines; $(echo "$OUT" | tail -1 | cut -c1-170)"
done
git -C $W checkout -q -- . ; git -C $W clean -fdq
