package props

import (
	"fmt"
	"math"
	"math/rand"
	"sort"

	"github.com/tidwall/geojson/geometry"

	"verif/internal/mon"
)

// C04: compressed segment indexes are exact accelerators.

type c04Case struct {
	Layout  string     `json:"layout"`
	N       int        `json:"n_points"`
	Closed  bool       `json:"closed"`
	Index   string     `json:"index"`
	Query   [4]float64 `json:"query_rect"`
	What    string     `json:"what"`
	Detail  string     `json:"detail"`
	GenSeed int64      `json:"gen_seed"`
	Points  []jpt      `json:"points,omitempty"` // only when small
}

var c04Layouts = []string{"uniform", "lattice-dup", "horizontal", "vertical", "all-equal", "clustered", "circle", "huge", "diagonal", "zigzag-wide", "huge-onesided"}

func c04Points(layout string, n int, r *rand.Rand) []geometry.Point {
	pts := make([]geometry.Point, n)
	for i := range pts {
		var x, y float64
		switch layout {
		case "uniform":
			x, y = r.Float64()*360-180, r.Float64()*180-90
		case "lattice-dup":
			x, y = float64(r.Intn(6)), float64(r.Intn(6))
		case "horizontal":
			x, y = float64(r.Intn(50))-25, 7
		case "vertical":
			x, y = -3.5, r.Float64()*10
		case "all-equal":
			x, y = 12.25, -40.5
		case "clustered":
			if r.Intn(50) == 0 {
				x, y = r.Float64()*2000-1000, r.Float64()*2000-1000
			} else {
				x, y = 10+r.NormFloat64()*1e-6, 20+r.NormFloat64()*1e-6
			}
		case "circle":
			th := 2 * math.Pi * float64(i) / float64(n)
			x, y = 100*math.Cos(th), 50*math.Sin(th)
		case "huge":
			x, y = (r.Float64()*2-1)*8e307, (r.Float64()*2-1)*8e307
		case "huge-onesided": // same-signed ordinates near the top of the range: Min+Max overflows (seeded change C04-m)
			x, y = 1e308+r.Float64()*7e307, -1e308-r.Float64()*7e307
		case "diagonal":
			x = float64(i)
			y = float64(i)
		case "zigzag-wide":
			x = float64(i%2) * 1000
			y = float64(i)
		}
		pts[i] = geometry.Point{X: x, Y: y}
	}
	return pts
}

func boxMeets(a geometry.Rect, q geometry.Rect) bool {
	return !(a.Min.X > q.Max.X || a.Max.X < q.Min.X || a.Min.Y > q.Max.Y || a.Max.Y < q.Min.Y)
}

func segBox(s geometry.Segment) geometry.Rect {
	return geometry.Rect{
		Min: geometry.Point{X: math.Min(s.A.X, s.B.X), Y: math.Min(s.A.Y, s.B.Y)},
		Max: geometry.Point{X: math.Max(s.A.X, s.B.X), Y: math.Max(s.A.Y, s.B.Y)},
	}
}

func c04Series(pts []geometry.Point, closed bool, ic IdxCfg) geometry.Series {
	if closed {
		return geometry.NewPoly(pts, nil, ic.Opts()).Exterior
	}
	return geometry.NewLine(pts, ic.Opts())
}

func c04Queries(pts []geometry.Point, box geometry.Rect, r *rand.Rand, nq int) []geometry.Rect {
	inf := math.Inf(1)
	qs := []geometry.Rect{{Min: geometry.Point{X: -inf, Y: -inf}, Max: geometry.Point{X: inf, Y: inf}}}
	if len(pts) == 0 {
		return append(qs, geometry.Rect{Min: geometry.Point{X: 0, Y: 0}, Max: geometry.Point{X: 1, Y: 1}})
	}
	pick := func() geometry.Point { return pts[r.Intn(len(pts))] }
	mid := geometry.Point{X: box.Min.X/2 + box.Max.X/2, Y: box.Min.Y/2 + box.Max.Y/2}
	for len(qs) < nq {
		p, q := pick(), pick()
		switch len(qs) % 8 {
		case 0: // horizontal strip through a vertex (what point-in-ring uses)
			qs = append(qs, geometry.Rect{Min: geometry.Point{X: -inf, Y: p.Y}, Max: geometry.Point{X: inf, Y: p.Y}})
		case 1: // degenerate at a vertex
			qs = append(qs, geometry.Rect{Min: p, Max: p})
		case 2: // on the quadrant midlines
			qs = append(qs, geometry.Rect{Min: geometry.Point{X: mid.X, Y: box.Min.Y}, Max: geometry.Point{X: mid.X, Y: box.Max.Y}})
			qs = append(qs, geometry.Rect{Min: geometry.Point{X: box.Min.X, Y: mid.Y}, Max: geometry.Point{X: mid.X, Y: mid.Y}})
		case 3: // spanned by two vertices
			qs = append(qs, geometry.Rect{Min: geometry.Point{X: math.Min(p.X, q.X), Y: math.Min(p.Y, q.Y)}, Max: geometry.Point{X: math.Max(p.X, q.X), Y: math.Max(p.Y, q.Y)}})
		case 4: // disjoint
			qs = append(qs, geometry.Rect{Min: geometry.Point{X: box.Max.X + 1, Y: box.Max.Y + 1}, Max: geometry.Point{X: box.Max.X + 2, Y: box.Max.Y + 2}})
		case 5: // vertical strip
			qs = append(qs, geometry.Rect{Min: geometry.Point{X: p.X, Y: -inf}, Max: geometry.Point{X: p.X, Y: inf}})
		case 6: // touching the box corner
			qs = append(qs, geometry.Rect{Min: geometry.Point{X: box.Min.X - 1, Y: box.Min.Y - 1}, Max: box.Min})
		default: // small window around a vertex
			w := (box.Max.X - box.Min.X) * r.Float64() * 0.1
			h := (box.Max.Y - box.Min.Y) * r.Float64() * 0.1
			qs = append(qs, geometry.Rect{Min: geometry.Point{X: p.X - w, Y: p.Y - h}, Max: geometry.Point{X: p.X + w, Y: p.Y + h}})
		}
	}
	return qs
}

func c04One(c *mon.Ctx, layout string, n int, closed bool, genSeed int64, nq int, predicates bool) {
	r := rand.New(rand.NewSource(genSeed))
	pts := c04Points(layout, n, r)
	base := c04Series(pts, closed, IdxCfg{})
	nseg := base.NumSegments()
	segs := make([]geometry.Segment, nseg)
	boxes := make([]geometry.Rect, nseg)
	for i := range segs {
		segs[i] = base.SegmentAt(i)
		boxes[i] = segBox(segs[i])
	}
	qs := c04Queries(pts, base.Rect(), r, nq)
	cfgs := []IdxCfg{{}, {geometry.RTree, 1}, {geometry.QuadTree, 1}, {geometry.RTree, n}, {geometry.QuadTree, n}, {geometry.RTree, n + 1}, {geometry.QuadTree, n + 1}, {geometry.RTree, 64}, {geometry.QuadTree, 64}}
	mk := func(ic IdxCfg, q geometry.Rect, what, detail string) c04Case {
		cs := c04Case{Layout: layout, N: n, Closed: closed, Index: ic.String(), Query: [4]float64{q.Min.X, q.Min.Y, q.Max.X, q.Max.Y}, What: what, Detail: detail, GenSeed: genSeed}
		if n <= 40 {
			for _, p := range pts {
				cs.Points = append(cs.Points, jpt{p.X, p.Y})
			}
		}
		return cs
	}
	want := make([][]int, len(qs))
	for qi, q := range qs {
		for i := range segs {
			if boxMeets(boxes[i], q) {
				want[qi] = append(want[qi], i)
			}
		}
	}
	for _, ic := range cfgs {
		c.SetCase(func() interface{} { return mk(ic, geometry.Rect{}, "build/search", "") })
		c.Try(func() {
			s := c04Series(pts, closed, ic)
			if s.Index() != nil {
				c.Count("indexed_" + ic.Kind.String())
				if n > 65536 {
					c.Count("indexed_over_65536")
				}
			} else {
				c.Count("unindexed")
			}
			if s.NumSegments() != nseg {
				c.Violation("numsegments", "segment count depends on the index", mk(ic, geometry.Rect{}, "NumSegments", fmt.Sprint(s.NumSegments(), " vs ", nseg)))
				return
			}
			for qi, q := range qs {
				var got []int
				badSeg := -1
				s.Search(q, func(seg geometry.Segment, idx int) bool {
					if idx < 0 || idx >= nseg || seg != segs[idx] {
						badSeg = idx
					}
					got = append(got, idx)
					return true
				})
				c.Eval()
				if badSeg != -1 {
					c.Violation("search-segment", "callback segment is not SegmentAt(index)", mk(ic, q, "Search", fmt.Sprint("index ", badSeg)))
					continue
				}
				sorted := append([]int{}, got...)
				sort.Ints(sorted)
				w := want[qi]
				same := len(sorted) == len(w)
				if same {
					for i := range w {
						if sorted[i] != w[i] {
							same = false
							break
						}
					}
				}
				if !same {
					c.Violation("search-set", "reported segments differ from the brute-force set (missing, spurious or duplicated)", mk(ic, q, "Search", fmt.Sprintf("got %d callbacks, want %d; first got %v first want %v", len(got), len(w), head(sorted), head(w))))
					continue
				}
				if len(w) > 0 {
					c.Count("searches_with_hits")
					if qi > 0 && len(w) < nseg {
						c.NonTrivial(uint64(mon.NewH().S(layout).I(int64(n)).B(closed).I(genSeed).I(int64(qi))))
					}
				}
				// early stop
				for _, stop := range []int{1, 2, 3, len(w)} {
					if stop < 1 || stop > len(w) {
						continue
					}
					calls := 0
					s.Search(q, func(seg geometry.Segment, idx int) bool {
						calls++
						return calls < stop
					})
					c.Eval()
					if calls != stop {
						c.Violation("search-stop", "callbacks continued after the callback returned false", mk(ic, q, "Search stop", fmt.Sprintf("stop at %d, saw %d callbacks", stop, calls)))
					}
					c.Count("early_stops")
				}
			}
		})
	}
	if !predicates || n < 2 {
		return
	}
	// consequence: predicates agree across index configurations, and a moved
	// shape answers as an index-free shape built at the moved coordinates
	c.Try(func() {
		type shp struct {
			line *geometry.Line
			poly *geometry.Poly
		}
		build := func(p []geometry.Point, ic IdxCfg) shp {
			return shp{geometry.NewLine(p, ic.Opts()), geometry.NewPoly(p, nil, ic.Opts())}
		}
		ref := build(pts, IdxCfg{})
		other := c04Points(layout, 2+r.Intn(30), r)
		oref := build(other, IdxCfg{})
		var probes []geometry.Point
		for i := 0; i < 24; i++ {
			p := pts[r.Intn(len(pts))]
			q := pts[r.Intn(len(pts))]
			switch i % 3 {
			case 0:
				probes = append(probes, p)
			case 1:
				probes = append(probes, geometry.Point{X: p.X, Y: q.Y})
			default:
				probes = append(probes, geometry.Point{X: p.X/2 + q.X/2, Y: p.Y/2 + q.Y/2})
			}
		}
		dx, dy := 3.0, -2.0
		switch genSeed % 4 {
		case 1:
			dx, dy = 1e-3, 1.0/3 // inexact additions: moved coordinates are rounded
		case 2:
			dx, dy = 0.1, -0.7
		case 3:
			dx, dy = 1e15, -1e15
		}
		if layout == "huge" {
			dx, dy = 1e292, -1e292
		}
		if layout == "huge-onesided" {
			dx, dy = -1e292, 1e292 // towards the origin: moved ordinates stay finite
		}
		moved := make([]geometry.Point, len(pts))
		for i, p := range pts {
			moved[i] = geometry.Point{X: p.X + dx, Y: p.Y + dy}
		}
		mref := build(moved, IdxCfg{})
		// segment search of a moved series against brute force over the moved points
		msegs := make([]geometry.Segment, mref.line.NumSegments())
		for i := range msegs {
			msegs[i] = mref.line.SegmentAt(i)
		}
		for _, ic := range cfgs[1:] {
			s := build(pts, ic)
			o := build(other, ic)
			ms := shp{s.line.Move(dx, dy), s.poly.Move(dx, dy)}
			for k := 0; k < 12 && len(moved) > 0; k++ {
				v := moved[r.Intn(len(moved))]
				q := geometry.Rect{Min: v, Max: v}
				if k%3 == 1 {
					w := moved[r.Intn(len(moved))]
					q = geometry.Rect{Min: geometry.Point{X: math.Min(v.X, w.X), Y: math.Min(v.Y, w.Y)}, Max: geometry.Point{X: math.Max(v.X, w.X), Y: math.Max(v.Y, w.Y)}}
				}
				var want, got []int
				for i, sg := range msegs {
					if boxMeets(segBox(sg), q) {
						want = append(want, i)
					}
				}
				ms.line.Search(q, func(seg geometry.Segment, idx int) bool { got = append(got, idx); return true })
				sort.Ints(got)
				c.Eval()
				c.Count("moved_searches")
				if fmt.Sprint(got) != fmt.Sprint(want) {
					c.Violation("move-search", "segment search of a Move()d series differs from brute force over the moved points", mk(ic, q, "Move("+fmt.Sprint(dx, ",", dy)+").Search", fmt.Sprintf("got %v want %v", head(got), head(want))))
					break
				}
			}
			cmp := func(what string, a, b bool) {
				c.Eval()
				c.Count("predicate_comparisons")
				if a != b {
					c.Violation("index-changes-answer", "a predicate answers differently with and without the segment index", mk(ic, geometry.Rect{}, what, fmt.Sprintf("indexed=%v index-free=%v other_n=%d", a, b, len(other))))
				}
			}
			for _, p := range probes {
				cmp("Poly.ContainsPoint", s.poly.ContainsPoint(p), ref.poly.ContainsPoint(p))
				cmp("Line.ContainsPoint", s.line.ContainsPoint(p), ref.line.ContainsPoint(p))
				mp := geometry.Point{X: p.X + dx, Y: p.Y + dy}
				cmp("Move(Poly).ContainsPoint", ms.poly.ContainsPoint(mp), mref.poly.ContainsPoint(mp))
				cmp("Move(Line).ContainsPoint", ms.line.ContainsPoint(mp), mref.line.ContainsPoint(mp))
			}
			// runs of the line's own vertices (a line that retraces itself covers a run more than once)
			for k := 0; k < 8 && len(pts) >= 3; k++ {
				i0, ln := r.Intn(len(pts)-1), 2+r.Intn(4)
				var run []geometry.Point
				for j := 0; j < ln && i0+j < len(pts); j++ {
					run = append(run, pts[i0+j])
				}
				if k%2 == 1 {
					for a, b := 0, len(run)-1; a < b; a, b = a+1, b-1 {
						run[a], run[b] = run[b], run[a]
					}
				}
				if k%4 >= 2 {
					// start inside the first segment of the run
					run[0] = geometry.Point{X: run[0].X/2 + run[1].X/2, Y: run[0].Y/2 + run[1].Y/2}
				}
				sub := geometry.NewLine(run, ic.Opts())
				cmp("Line.ContainsLine(run of its own vertices)", s.line.ContainsLine(sub), ref.line.ContainsLine(sub))
			}
			cmp("Line.ContainsLine", s.line.ContainsLine(o.line), ref.line.ContainsLine(oref.line))
			cmp("Poly.IntersectsLine", s.poly.IntersectsLine(o.line), ref.poly.IntersectsLine(oref.line))
			cmp("Line.IntersectsLine", s.line.IntersectsLine(o.line), ref.line.IntersectsLine(oref.line))
			cmp("Poly.IntersectsPoly", s.poly.IntersectsPoly(o.poly), ref.poly.IntersectsPoly(oref.poly))
			cmp("Poly.IntersectsPoly'", o.poly.IntersectsPoly(s.poly), oref.poly.IntersectsPoly(ref.poly))
			r0 := oref.poly.Rect()
			cmp("Poly.IntersectsRect", s.poly.IntersectsRect(r0), ref.poly.IntersectsRect(r0))
			cmp("Line.IntersectsRect", s.line.IntersectsRect(r0), ref.line.IntersectsRect(r0))
			if ms.poly.Rect() != mref.poly.Rect() || ms.line.NumSegments() != mref.line.NumSegments() {
				c.Violation("move", "moved shape differs from a shape built at the moved coordinates", mk(ic, geometry.Rect{}, "Move", ""))
			}
			if (s.poly.Exterior.Index() != nil) != (ms.poly.Exterior.Index() != nil) {
				c.Count("move_index_presence_differs")
			}
		}
	})
}

func head(a []int) []int {
	if len(a) > 6 {
		return a[:6]
	}
	return a
}

func c04Run(c *mon.Ctx) {
	sizes := []int{0, 1, 2, 3, 4, 5, 6, 7, 8, 9, 10, 11, 12, 13, 14, 15, 16, 17, 31, 32, 33, 34, 63, 64, 65, 66, 255, 256, 257, 258, 1000, 5000}
	bigSizes := []int{65535, 65536, 65537, 65538, 70000}
	item := 0
	reps := c.Pick(10, 150)
	for rep := 0; rep < reps; rep++ {
		for li, layout := range c04Layouts {
			for _, n := range sizes {
				for _, closed := range []bool{false, true} {
					item++
					if !c.Mine(item) {
						continue
					}
					nq := 16
					if n >= 1000 {
						nq = 10
					}
					seed := c.Seed*1000003 + int64(item)*7919
					c04One(c, layout, n, closed, seed, nq, n <= 1000 && (n%2 == 0 || li%2 == 0))
					c.Count("series")
					if item%97 == 5 && c.WantSample() {
						c.Sample(map[string]interface{}{"layout": layout, "n_points": n, "closed": closed, "gen_seed": seed, "queries": nq, "index_configs": 9})
					}
				}
			}
		}
	}
	// sizes beyond 65536 (4-byte item encoding): a few layouts each
	bigLayouts := []string{"uniform", "circle", "all-equal", "clustered", "diagonal", "lattice-dup"}
	nbig := c.Pick(1, 6)
	for rep := 0; rep < nbig; rep++ {
		for li, layout := range bigLayouts {
			for ni, n := range bigSizes {
				item++
				if !c.Mine(item) {
					continue
				}
				seed := c.Seed*1000003 + int64(item)*7919
				c04One(c, layout, n, (li+ni+rep)%2 == 0, seed, 8, false)
				c.Count("series_big")
			}
		}
	}
}

func init() {
	mon.Register(&mon.Prop{
		ID:          "C04",
		Rule:        "series of sizes {0..17, 31-34, 63-66, 255-258, 1000, 5000, 65535-65538, 70000} x 11 layouts (uniform, duplicate lattice, horizontal, vertical, all-equal, clustered with outliers, circle, +-8e307, diagonal, wide zigzag, same-signed 1e308..1.7e308) x open/closed x {none, R-tree, quadtree} x MinPoints {1, n, n+1, 64} x query rectangles (infinite, horizontal/vertical strips through a vertex, degenerate at a vertex, quadrant midlines, vertex-spanned, disjoint, corner-touching, small windows) x stop position {1,2,3,last}; plus oracle-free comparison of predicates and of Move()d shapes against index-free shapes. Non-trivial = distinct (series, query) whose expected result is a non-empty proper subset of the segments.",
		Assumptions: []string{"oracle: brute force over NumSegments/SegmentAt of the index-free series with the harness' own closed-box test", "the index bytes are not decoded: a layout change that keeps Search correct must not alarm"},
		Run:         c04Run,
		MustSee:     []string{"indexed_RTree", "indexed_QuadTree", "unindexed", "indexed_over_65536", "early_stops", "searches_with_hits", "predicate_comparisons", "series_big", "moved_searches"},
	})
}
