// Package refjson is the reference GeoJSON reader of the monitors.  It is
// built on encoding/json's token stream (member order and duplicates are
// kept, numbers stay json.Number) and classifies a text by the wording of
// properties C06/C07 only; it does not import the library under test.
package refjson

import (
	"bytes"
	"encoding/json"
	"fmt"
	"io"
	"math"
	"strconv"
	"strings"
)

// Val is an ordered JSON value.
type Val struct {
	Kind byte // 'o' object, 'a' array, 'n' number, 's' string, 't' true, 'f' false, 'z' null
	Mem  []KV
	El   []*Val
	Num  string
	Str  string
}

// KV is one object member.
type KV struct {
	Key string
	Val *Val
}

// Decode reads exactly one JSON value surrounded by optional whitespace.
func Decode(text string) (*Val, error) {
	d := json.NewDecoder(strings.NewReader(text))
	d.UseNumber()
	v, err := readVal(d)
	if err != nil {
		return nil, err
	}
	if _, err := d.Token(); err != io.EOF {
		return nil, fmt.Errorf("trailing data")
	}
	return v, nil
}

func readVal(d *json.Decoder) (*Val, error) {
	t, err := d.Token()
	if err != nil {
		return nil, err
	}
	return fromToken(d, t)
}

func fromToken(d *json.Decoder, t json.Token) (*Val, error) {
	switch x := t.(type) {
	case json.Delim:
		switch x {
		case '{':
			v := &Val{Kind: 'o'}
			for d.More() {
				kt, err := d.Token()
				if err != nil {
					return nil, err
				}
				k, ok := kt.(string)
				if !ok {
					return nil, fmt.Errorf("non-string key")
				}
				e, err := readVal(d)
				if err != nil {
					return nil, err
				}
				v.Mem = append(v.Mem, KV{k, e})
			}
			if _, err := d.Token(); err != nil {
				return nil, err
			}
			return v, nil
		case '[':
			v := &Val{Kind: 'a'}
			for d.More() {
				e, err := readVal(d)
				if err != nil {
					return nil, err
				}
				v.El = append(v.El, e)
			}
			if _, err := d.Token(); err != nil {
				return nil, err
			}
			return v, nil
		}
		return nil, fmt.Errorf("unexpected delimiter %v", x)
	case json.Number:
		return &Val{Kind: 'n', Num: string(x)}, nil
	case string:
		return &Val{Kind: 's', Str: x}, nil
	case bool:
		if x {
			return &Val{Kind: 't'}, nil
		}
		return &Val{Kind: 'f'}, nil
	case nil:
		return &Val{Kind: 'z'}, nil
	}
	return nil, fmt.Errorf("unexpected token %T", t)
}

// Canon renders a value compactly and canonically (numbers keep their source
// spelling, strings are re-escaped by encoding/json).
func (v *Val) Canon() string {
	var b bytes.Buffer
	v.canon(&b)
	return b.String()
}

func (v *Val) canon(b *bytes.Buffer) {
	switch v.Kind {
	case 'o':
		b.WriteByte('{')
		for i, m := range v.Mem {
			if i > 0 {
				b.WriteByte(',')
			}
			k, _ := json.Marshal(m.Key)
			b.Write(k)
			b.WriteByte(':')
			m.Val.canon(b)
		}
		b.WriteByte('}')
	case 'a':
		b.WriteByte('[')
		for i, e := range v.El {
			if i > 0 {
				b.WriteByte(',')
			}
			e.canon(b)
		}
		b.WriteByte(']')
	case 'n':
		b.WriteString(v.Num)
	case 's':
		s, _ := json.Marshal(v.Str)
		b.Write(s)
	case 't':
		b.WriteString("true")
	case 'f':
		b.WriteString("false")
	default:
		b.WriteString("null")
	}
}

// Get returns the last member with the key.
func (v *Val) Get(key string) *Val {
	var out *Val
	for _, m := range v.Mem {
		if m.Key == key {
			out = m.Val
		}
	}
	return out
}

// Float is the number's value as a standard decoder gives it.
func (v *Val) Float() float64 {
	f, _ := strconv.ParseFloat(v.Num, 64)
	return f
}

// Pos is one decoded position.
type Pos struct {
	X, Y  float64
	Extra []float64 // third and fourth ordinate as written (at most two)
	N     int       // number of ordinates written
}

// Member is a foreign member.
type Member struct {
	Key   string
	Canon string
}

// Doc is a decoded GeoJSON object.
type Doc struct {
	Type     string
	Points   []Pos     // Point: 1; LineString: n
	Rings    [][]Pos   // Polygon
	Children []*Doc    // Multi*: synthetic leaf children; collections; Feature: [geometry]
	Foreign  []Member  // members other than the five reserved names, in order
	Circle   *CircleFn // Feature following the Circle convention
	Raw      *Val
}

// CircleFn holds the circle convention's parameters.
type CircleFn struct {
	Radius float64
	Units  string
}

// Class is the verdict of Classify.
type Class int

// Classes.
const (
	WellFormed   Class = iota // the statement says: must be accepted
	Defect                    // a listed structural defect: must be rejected
	Unclassified              // the statement does not decide
)

func (c Class) String() string { return [...]string{"well-formed", "defect", "unclassified"}[c] }

var reserved = map[string]bool{"type": true, "coordinates": true, "geometry": true, "geometries": true, "features": true}

// Result of Classify.
type Result struct {
	Class  Class
	Reason string // first defect, or why unclassified
	Doc    *Doc   // set unless Class==Defect
	Finite bool   // every number in positions is finite
	// LaterLonger: in some LineString/Polygon (or member of a Multi*) the
	// first position has two ordinates and a later one has more.
	LaterLonger bool
}

type state struct {
	defect      string
	uncl        string
	finite      bool
	laterLonger bool
}

func (s *state) dims(ps ...[]Pos) {
	first := -1
	for _, l := range ps {
		for _, p := range l {
			if first == -1 {
				first = p.N
				continue
			}
			if first == 2 && p.N > 2 {
				s.laterLonger = true
			}
		}
	}
}

func (s *state) bad(f string, a ...interface{}) {
	if s.defect == "" {
		s.defect = fmt.Sprintf(f, a...)
	}
}
func (s *state) unk(f string, a ...interface{}) {
	if s.uncl == "" {
		s.uncl = fmt.Sprintf(f, a...)
	}
}

// Classify decides what C07 says about the text.
func Classify(text string) Result {
	v, err := Decode(text)
	if err != nil {
		return Result{Class: Defect, Reason: "not one valid JSON value: " + err.Error()}
	}
	if v.Kind != 'o' {
		return Result{Class: Defect, Reason: "not a JSON object"}
	}
	// surrounding whitespace: the statement allows "optional surrounding
	// whitespace"; JSON whitespace is space, tab, LF, CR
	st := &state{finite: true}
	d := st.object(v, 0)
	switch {
	case st.defect != "":
		return Result{Class: Defect, Reason: st.defect}
	case st.uncl != "":
		return Result{Class: Unclassified, Reason: st.uncl, Doc: d, Finite: st.finite, LaterLonger: st.laterLonger}
	}
	return Result{Class: WellFormed, Doc: d, Finite: st.finite, LaterLonger: st.laterLonger}
}

func (s *state) position(v *Val, allowNull bool) Pos {
	var p Pos
	if v.Kind != 'a' {
		s.bad("position is not an array")
		return p
	}
	if len(v.El) < 2 {
		s.bad("position with fewer than two ordinates")
		return p
	}
	n := len(v.El)
	if n > 4 {
		s.unk("position with more than four ordinates")
		n = 4
	}
	vals := make([]float64, 0, 4)
	for i := 0; i < n; i++ {
		e := v.El[i]
		switch {
		case e.Kind == 'n':
			f := e.Float()
			if math.IsInf(f, 0) {
				s.finite = false
			}
			vals = append(vals, f)
		case e.Kind == 'z' && allowNull:
			s.finite = false
			vals = append(vals, math.NaN())
		default:
			s.bad("non-numeric value among the first four ordinates of a position")
			return p
		}
	}
	p.X, p.Y, p.N = vals[0], vals[1], n
	p.Extra = vals[2:]
	return p
}

func (s *state) line(v *Val) []Pos {
	if v.Kind != 'a' {
		s.bad("line coordinates are not an array")
		return nil
	}
	var out []Pos
	for _, e := range v.El {
		out = append(out, s.position(e, false))
	}
	if len(out) < 2 {
		s.bad("line with fewer than two positions")
	}
	s.dims(out)
	return out
}

func (s *state) polygon(v *Val) [][]Pos {
	if v.Kind != 'a' {
		s.bad("polygon coordinates are not an array")
		return nil
	}
	var out [][]Pos
	for _, rv := range v.El {
		if rv.Kind != 'a' {
			s.bad("polygon ring is not an array")
			return nil
		}
		var ring []Pos
		for _, e := range rv.El {
			ring = append(ring, s.position(e, false))
		}
		if s.defect != "" {
			return nil
		}
		if len(ring) < 4 {
			s.bad("ring with fewer than four positions")
		} else if f, l := ring[0], ring[len(ring)-1]; f.X != l.X || f.Y != l.Y {
			s.bad("ring not closed")
		}
		out = append(out, ring)
	}
	if len(out) == 0 {
		s.bad("polygon with no ring")
	}
	s.dims(out...)
	return out
}

func (s *state) object(v *Val, depth int) *Doc {
	d := &Doc{Raw: v}
	for _, m := range v.Mem {
		if !reserved[m.Key] {
			d.Foreign = append(d.Foreign, Member{m.Key, m.Val.Canon()})
		}
	}
	t := v.Get("type")
	if t == nil {
		s.bad("missing type")
		return d
	}
	if t.Kind != 's' {
		s.bad("type is not a string")
		return d
	}
	d.Type = t.Str
	need := func(key string) *Val {
		m := v.Get(key)
		if m == nil {
			s.bad("missing %s", key)
		}
		return m
	}
	needArr := func(key string) *Val {
		m := need(key)
		if m != nil && m.Kind != 'a' {
			s.bad("%s is not an array", key)
			return nil
		}
		return m
	}
	switch d.Type {
	case "Point":
		if c := needArr("coordinates"); c != nil {
			d.Points = []Pos{s.position(c, true)}
		}
	case "LineString":
		if c := needArr("coordinates"); c != nil {
			d.Points = s.line(c)
		}
	case "Polygon":
		if c := needArr("coordinates"); c != nil {
			d.Rings = s.polygon(c)
		}
	case "MultiPoint":
		if c := needArr("coordinates"); c != nil {
			for _, e := range c.El {
				d.Children = append(d.Children, &Doc{Type: "Point", Points: []Pos{s.position(e, true)}})
			}
		}
	case "MultiLineString":
		if c := needArr("coordinates"); c != nil {
			for _, e := range c.El {
				d.Children = append(d.Children, &Doc{Type: "LineString", Points: s.line(e)})
			}
		}
	case "MultiPolygon":
		if c := needArr("coordinates"); c != nil {
			for _, e := range c.El {
				d.Children = append(d.Children, &Doc{Type: "Polygon", Rings: s.polygon(e)})
			}
		}
	case "GeometryCollection", "FeatureCollection":
		key := "geometries"
		if d.Type == "FeatureCollection" {
			key = "features"
		}
		if c := needArr(key); c != nil {
			for _, e := range c.El {
				if e.Kind != 'o' {
					s.bad("element of %s is not an object", key)
					return d
				}
				d.Children = append(d.Children, s.object(e, depth+1))
			}
		}
	case "Feature":
		g := need("geometry")
		if g == nil {
			return d
		}
		if g.Kind != 'o' {
			s.bad("geometry is not an object")
			return d
		}
		gd := s.object(g, depth+1)
		d.Children = []*Doc{gd}
		if gd.Type == "Point" {
			if props := v.Get("properties"); props != nil && props.Kind == 'o' {
				// the first member wins in the accessor the convention is
				// read with, the last in a standard decoder: only decided
				// when they agree
				if tv := props.Get("type"); tv != nil && tv.Kind == 's' && tv.Str == "Circle" {
					cf := &CircleFn{}
					if rv := props.Get("radius"); rv != nil && rv.Kind == 'n' {
						cf.Radius = rv.Float()
					} else if rv != nil {
						s.unk("circle radius is not a number")
					}
					if uv := props.Get("radius_units"); uv != nil {
						if uv.Kind == 's' {
							cf.Units = uv.Str
						} else {
							s.unk("circle radius_units is not a string")
						}
					}
					if cf.Units != "" && cf.Units != "m" && cf.Units != "km" {
						s.unk("circle convention with unknown radius_units")
					}
					d.Circle = cf
				}
				for _, name := range []string{"type", "radius", "radius_units"} {
					cnt := 0
					for _, m := range props.Mem {
						if m.Key == name {
							cnt++
						}
					}
					if cnt > 1 {
						s.unk("duplicate %s inside properties", name)
					}
				}
				dup := 0
				for _, m := range v.Mem {
					if m.Key == "properties" {
						dup++
					}
				}
				if dup > 1 {
					s.unk("duplicate properties member")
				}
			}
		}
	default:
		s.bad("unknown type %q", d.Type)
	}
	return d
}
