package props

import (
	"encoding/json"
	"math/rand"

	"verif/internal/exact"
	"verif/internal/gen"
	"verif/internal/mon"
)

// pairSink receives one ordered pair of valid shapes.  corpus is true for the
// fixed, seed-independent contact corpus; closedA tells whether A's rings are
// to be given with their closing vertex repeated.
type pairSink func(a, b *exact.Shape, family string, corpus bool, closedA bool, n int)

type pairOpts struct {
	corpusVariants int  // ring variants per corpus ring
	halfLattice    bool // segment endpoints on the half-integer lattice
	random         int  // random pairs (total over all shards)
	families       int  // explicit contact families (total)
	large          int  // pairs with a ring of >= 34 vertices (index splits) or a >= 16-point shape inside a hole
}

// corpusVariant returns the v-th encoding variant of a corpus ring (v < 8):
// start vertex, direction.  Variants 0..3 are a subset of 0..7.
func corpusVariant(nr gen.NamedRing, v int) exact.Ring {
	ring := nr.Ring(1, 0, 0)
	n := len(ring)
	rot := []int{0, n / 2, n / 4, (3 * n) / 4, 1, n/2 + 1, n - 1, n / 3}[v%8]
	out := gen.Rotate(ring, rot%n)
	if v%2 == 1 {
		out = gen.Reverse(out)
	}
	return out
}

func latticePoints(nr gen.NamedRing, half bool, margin int64) []exact.P {
	x0, y0, x1, y1 := nr.Box()
	step := int64(gen.U)
	if half {
		step = gen.U / 2
	}
	var out []exact.P
	for x := (x0 - margin) * gen.U; x <= (x1+margin)*gen.U; x += step {
		for y := (y0 - margin) * gen.U; y <= (y1+margin)*gen.U; y += step {
			out = append(out, exact.P{X: x, Y: y})
		}
	}
	return out
}

// corpusPairs enumerates the fixed contact corpus.
func corpusPairs(c *mon.Ctx, o pairOpts, item *int, sink pairSink) {
	for _, nr := range gen.Corpus {
		pts := latticePoints(nr, o.halfLattice, 1)
		ipts := latticePoints(nr, false, 1)
		x0, y0, x1, y1 := nr.Box()
		frame := exact.Ring{{X: (x0 - 2) * gen.U, Y: (y0 - 2) * gen.U}, {X: (x1 + 2) * gen.U, Y: (y0 - 2) * gen.U}, {X: (x1 + 2) * gen.U, Y: (y1 + 2) * gen.U}, {X: (x0 - 2) * gen.U, Y: (y1 + 2) * gen.U}}
		for v := 0; v < o.corpusVariants; v++ {
			ring := corpusVariant(nr, v)
			closed := v%4 < 2
			shapes := []*exact.Shape{
				{Kind: exact.KPoly, Ext: ring},
				{Kind: exact.KPoly, Ext: frame, Holes: []exact.Ring{ring}},
			}
			for si, a := range shapes {
				fam := "corpus:" + nr.Name
				if si == 1 {
					fam = "corpus-hole:" + nr.Name
				}
				// segments (as two-point lines), one work item per first endpoint
				for _, p := range pts {
					*item++
					if !c.Mine(*item) {
						continue
					}
					for _, q := range pts {
						sink(a, &exact.Shape{Kind: exact.KLine, Pts: []exact.P{p, q}}, fam+":segment", true, closed, 0)
					}
					sink(a, &exact.Shape{Kind: exact.KPoint, Pts: []exact.P{p}}, fam+":point", true, closed, 0)
				}
				// rectangles and small triangles on the integer lattice
				for _, p := range ipts {
					*item++
					if !c.Mine(*item) {
						continue
					}
					for _, q := range ipts {
						if q.X >= p.X && q.Y >= p.Y {
							sink(a, &exact.Shape{Kind: exact.KRect, Pts: []exact.P{p, q}}, fam+":rect", true, closed, 0)
						}
						if v < 2 && q.X > p.X {
							// triangle p, q, apex above/below the base midpoint
							for _, dy := range []int64{-2 * gen.U, gen.U, 3 * gen.U} {
								r := exact.P{X: p.X, Y: q.Y + dy}
								tri := exact.Ring{p, q, r}
								if tri.Simple() {
									sink(a, &exact.Shape{Kind: exact.KPoly, Ext: tri}, fam+":triangle", true, closed, 0)
								}
							}
						}
					}
				}
			}
		}
	}
	lineLatticePairs(c, o, item, sink)
}

// latticeLines returns every line string of k positions on the 3x3 lattice
// whose consecutive positions differ.
func latticeLines(k int) [][]exact.P {
	var pts []exact.P
	for x := int64(0); x < 3; x++ {
		for y := int64(0); y < 3; y++ {
			pts = append(pts, exact.P{X: x * gen.U, Y: y * gen.U})
		}
	}
	var out [][]exact.P
	var rec func(cur []exact.P)
	rec = func(cur []exact.P) {
		if len(cur) == k {
			out = append(out, append([]exact.P{}, cur...))
			return
		}
		for _, p := range pts {
			if len(cur) > 0 && cur[len(cur)-1] == p {
				continue
			}
			rec(append(cur, p))
		}
	}
	rec(nil)
	return out
}

// lineLatticePairs enumerates line string against line string (and point) on
// the 3x3 lattice: receivers of 2-3 [4] positions, arguments of 2-3 positions.
func lineLatticePairs(c *mon.Ctx, o pairOpts, item *int, sink pairSink) {
	var as, bs [][]exact.P
	for k := 2; k <= 3; k++ {
		bs = append(bs, latticeLines(k)...)
	}
	as = append(as, bs...)
	if o.halfLattice {
		as = append(as, latticeLines(4)...)
	}
	for _, a := range as {
		*item++
		if !c.Mine(*item) {
			continue
		}
		sa := &exact.Shape{Kind: exact.KLine, Pts: a}
		for _, b := range bs {
			sink(sa, &exact.Shape{Kind: exact.KLine, Pts: b}, "corpus-line:line", true, false, 0)
		}
		for _, p := range latticeLines(1) {
			sink(sa, &exact.Shape{Kind: exact.KPoint, Pts: p}, "corpus-line:point", true, false, 0)
		}
	}
}

var kinds4 = []exact.Kind{exact.KPoint, exact.KRect, exact.KLine, exact.KPoly}

// holeFamilies builds B shapes placed relative to a hole of A.
func holeFamily(r *rand.Rand, a *exact.Shape) *exact.Shape {
	if len(a.Holes) == 0 {
		return nil
	}
	h := a.Holes[r.Intn(len(a.Holes))]
	mn, mx := gen.Box(h)
	switch r.Intn(8) {
	case 7: // a polygon with a hole of its own strictly inside the hole (quarter-unit lattice)
		if mx.X-mn.X >= gen.U && mx.Y-mn.Y >= gen.U {
			q := int64(gen.U / 4)
			cx, cy := (mn.X+mx.X)/2, (mn.Y+mx.Y)/2
			outer := exact.Ring{{X: cx - 3*q, Y: cy - 3*q}, {X: cx + 3*q, Y: cy - 3*q}, {X: cx + 3*q, Y: cy + 3*q}, {X: cx - 3*q, Y: cy + 3*q}}
			inner := exact.Ring{{X: cx - q, Y: cy - q}, {X: cx + q, Y: cy - q}, {X: cx + q, Y: cy + q}, {X: cx - q, Y: cy + q}}
			if r.Intn(2) == 0 {
				inner = gen.Reverse(inner)
			}
			if exact.ValidPoly(outer, []exact.Ring{inner}) {
				return &exact.Shape{Kind: exact.KPoly, Ext: outer, Holes: []exact.Ring{inner}}
			}
		}
		return &exact.Shape{Kind: exact.KPoint, Pts: []exact.P{{X: (mn.X + mx.X) / 2, Y: (mn.Y + mx.Y) / 2}}}
	case 0: // the hole itself as a polygon (covers the hole exactly)
		return &exact.Shape{Kind: exact.KPoly, Ext: gen.Rotate(h, r.Intn(len(h)))}
	case 1: // a vertex of the hole
		return &exact.Shape{Kind: exact.KPoint, Pts: []exact.P{h[r.Intn(len(h))]}}
	case 2: // an edge of the hole as a line (lies along the hole boundary)
		i := r.Intn(len(h))
		return &exact.Shape{Kind: exact.KLine, Pts: []exact.P{h[i], h[(i+1)%len(h)]}}
	case 3: // the hole's box
		return &exact.Shape{Kind: exact.KRect, Pts: []exact.P{mn, mx}}
	case 4: // a box strictly around the hole
		return &exact.Shape{Kind: exact.KRect, Pts: []exact.P{{X: mn.X - gen.U/2, Y: mn.Y - gen.U/2}, {X: mx.X + gen.U/2, Y: mx.Y + gen.U/2}}}
	case 5: // a line crossing the hole's box
		return &exact.Shape{Kind: exact.KLine, Pts: []exact.P{{X: mn.X - gen.U, Y: (mn.Y + mx.Y) / 2}, {X: mx.X + gen.U, Y: (mn.Y + mx.Y) / 2}}}
	default: // a polygon with its own hole swallowing A's hole
		outer := exact.Ring{{X: mn.X - 2*gen.U, Y: mn.Y - 2*gen.U}, {X: mx.X + 2*gen.U, Y: mn.Y - 2*gen.U}, {X: mx.X + 2*gen.U, Y: mx.Y + 2*gen.U}, {X: mn.X - 2*gen.U, Y: mx.Y + 2*gen.U}}
		inner := exact.Ring{{X: mn.X - gen.U/2, Y: mn.Y - gen.U/2}, {X: mx.X + gen.U/2, Y: mn.Y - gen.U/2}, {X: mx.X + gen.U/2, Y: mx.Y + gen.U/2}, {X: mn.X - gen.U/2, Y: mx.Y + gen.U/2}}
		if r.Intn(2) == 0 {
			inner = exact.Ring{{X: mn.X, Y: mn.Y}, {X: mx.X, Y: mn.Y}, {X: mx.X, Y: mx.Y}, {X: mn.X, Y: mx.Y}}
		}
		if exact.ValidPoly(outer, []exact.Ring{inner}) {
			return &exact.Shape{Kind: exact.KPoly, Ext: outer, Holes: []exact.Ring{inner}}
		}
		return &exact.Shape{Kind: exact.KPoly, Ext: outer}
	}
}

// notchedHole builds a polygon whose hole is a rectilinear concave ring rich
// in redundant collinear vertices, and a partner whose vertices all lie
// strictly inside that hole: whether the partner crosses the material that
// sticks into the hole's concavities depends on its edges, not its vertices.
func notchedHole(r *rand.Rand, kb exact.Kind) (*exact.Shape, *exact.Shape) {
	hole := gen.RandOrtho(r, 2+r.Intn(4), 6, 2, 2)
	for k := r.Intn(3); k > 0; k-- {
		hole = gen.SplitEdges(r, hole)
	}
	hole = gen.Rotate(hole, r.Intn(len(hole)))
	if r.Intn(2) == 0 {
		hole = gen.Reverse(hole)
	}
	mn, mx := gen.Box(hole)
	ext := exact.Ring{{X: mn.X - 2*gen.U, Y: mn.Y - 2*gen.U}, {X: mx.X + 2*gen.U, Y: mn.Y - 2*gen.U}, {X: mx.X + 2*gen.U, Y: mx.Y + 2*gen.U}, {X: mn.X - 2*gen.U, Y: mx.Y + 2*gen.U}}
	if !exact.ValidPoly(ext, []exact.Ring{hole}) {
		return nil, nil
	}
	a := &exact.Shape{Kind: exact.KPoly, Ext: ext, Holes: []exact.Ring{hole}}
	hu := int64(gen.U / 2)
	var inside []exact.P
	for x := mn.X + hu; x < mx.X; x += hu {
		for y := mn.Y + hu; y < mx.Y; y += hu {
			if hole.Pip(exact.P{X: x, Y: y}) > 0 {
				inside = append(inside, exact.P{X: x, Y: y})
			}
		}
	}
	if len(inside) < 3 {
		return nil, nil
	}
	pick := func() exact.P { return inside[r.Intn(len(inside))] }
	switch kb {
	case exact.KPoly:
		for try := 0; try < 10; try++ {
			t := exact.Ring{pick(), pick(), pick()}
			if r.Intn(2) == 0 {
				t = append(t, pick())
			}
			if t.Area2() != 0 && t.Simple() {
				return a, &exact.Shape{Kind: exact.KPoly, Ext: t}
			}
		}
		return nil, nil
	case exact.KRect:
		p, q := pick(), pick()
		if p.X == q.X || p.Y == q.Y {
			return nil, nil
		}
		return a, &exact.Shape{Kind: exact.KRect, Pts: []exact.P{{X: min(p.X, q.X), Y: min(p.Y, q.Y)}, {X: max(p.X, q.X), Y: max(p.Y, q.Y)}}}
	case exact.KPoint:
		return a, &exact.Shape{Kind: exact.KPoint, Pts: []exact.P{pick()}}
	}
	pts := []exact.P{pick(), pick()}
	if r.Intn(2) == 0 {
		pts = append(pts, pick())
	}
	if pts[0] == pts[1] {
		return nil, nil
	}
	return a, &exact.Shape{Kind: exact.KLine, Pts: pts}
}

// subShape builds a B from pieces of A (runs along A's boundary, sits on its
// vertices, is a sub-polygon of it).
func subShape(r *rand.Rand, a *exact.Shape, kind exact.Kind) *exact.Shape {
	var ring exact.Ring
	switch a.Kind {
	case exact.KPoly:
		ring = a.Ext
	case exact.KRect:
		mn, mx := a.Pts[0], a.Pts[1]
		ring = exact.Ring{mn, {X: mx.X, Y: mn.Y}, mx, {X: mn.X, Y: mx.Y}}
	default:
		ring = exact.Ring(a.Pts)
	}
	n := len(ring)
	if n == 0 {
		return nil
	}
	switch kind {
	case exact.KPoint:
		return &exact.Shape{Kind: exact.KPoint, Pts: []exact.P{ring[r.Intn(n)]}}
	case exact.KLine:
		// a run of consecutive vertices, optionally with a chord
		i, k := r.Intn(n), 2+r.Intn(min(4, n))
		var pts []exact.P
		for j := 0; j < k; j++ {
			pts = append(pts, ring[(i+j)%n])
		}
		if r.Intn(3) == 0 {
			pts = append(pts, ring[r.Intn(n)])
		}
		if r.Intn(4) == 0 {
			pts = gen.ReversePts(pts)
		}
		return &exact.Shape{Kind: exact.KLine, Pts: pts}
	case exact.KRect:
		p, q := ring[r.Intn(n)], ring[r.Intn(n)]
		return &exact.Shape{Kind: exact.KRect, Pts: []exact.P{{X: min(p.X, q.X), Y: min(p.Y, q.Y)}, {X: max(p.X, q.X), Y: max(p.Y, q.Y)}}}
	}
	// polygon from a subset of A's vertices in order (shares edges/vertices)
	if n < 3 {
		return nil
	}
	for try := 0; try < 10; try++ {
		var sub exact.Ring
		for _, p := range ring {
			if r.Intn(3) != 0 {
				sub = append(sub, p)
			}
		}
		if len(sub) >= 3 && sub.Simple() {
			if r.Intn(2) == 0 {
				sub = gen.Reverse(sub)
			}
			return &exact.Shape{Kind: exact.KPoly, Ext: gen.Rotate(sub, r.Intn(len(sub)))}
		}
	}
	if ring.Simple() {
		return &exact.Shape{Kind: exact.KPoly, Ext: ring}
	}
	return nil
}

// grazeLine builds a line through a vertex (or corner) v of shape a along a
// random lattice direction with long legs on both sides, so that the line may
// touch a only at v (slopes such as 15:-5 included).
func grazeLine(r *rand.Rand, a *exact.Shape) *exact.Shape {
	var vs []exact.P
	switch a.Kind {
	case exact.KPoly:
		vs = a.Ext
	case exact.KRect:
		mn, mx := a.Pts[0], a.Pts[1]
		vs = []exact.P{mn, {X: mx.X, Y: mn.Y}, mx, {X: mn.X, Y: mx.Y}}
	default:
		vs = a.Pts
	}
	if len(vs) == 0 {
		return nil
	}
	v := vs[r.Intn(len(vs))]
	dx, dy := r.Int63n(41)-20, r.Int63n(41)-20
	if dx == 0 && dy == 0 {
		dx = 1
	}
	k1, k2 := 1+r.Int63n(3), 1+r.Int63n(3)
	step := int64(gen.U)
	if r.Intn(3) == 0 {
		step = gen.U / 2
	}
	p := exact.P{X: v.X - k1*dx*step, Y: v.Y - k1*dy*step}
	q := exact.P{X: v.X + k2*dx*step, Y: v.Y + k2*dy*step}
	pts := []exact.P{p, q}
	if r.Intn(3) == 0 {
		pts = []exact.P{p, v, q} // the touched vertex is a vertex of the line too
	}
	return &exact.Shape{Kind: exact.KLine, Pts: pts}
}

// randomPairs draws contact-biased valid pairs of every kind combination.
func randomPairs(c *mon.Ctx, o pairOpts, item *int, sink pairSink) {
	for i := 0; i < o.random; i++ {
		*item++
		if !c.Mine(*item) {
			continue
		}
		r := c.SubRng("pair", i)
		ka, kb := kinds4[i%4], kinds4[(i/4)%4]
		if r.Intn(3) == 0 {
			ka = exact.KPoly // polygons carry most of the case analysis
		}
		a := gen.RandShape(r, ka, 3)
		var b *exact.Shape
		fam := "random"
		switch r.Intn(7) {
		case 6:
			if (ka == exact.KPoly || ka == exact.KRect) && (kb == exact.KLine || r.Intn(3) == 0) {
				if gl := grazeLine(r, a); gl != nil {
					b, fam = gl, "graze-line"
				}
			}
		case 0:
			if hb := holeFamily(r, a); hb != nil {
				b, fam = hb, "hole-family"
			}
		case 3:
			if i%2 == 0 {
				if na, nb := notchedHole(r, kb); na != nil {
					a, b, fam = na, nb, "notched-hole"
				}
			}
		case 1:
			if sb := subShape(r, a, kb); sb != nil {
				b, fam = sb, "sub-shape"
			}
		case 2:
			// A from pieces of a fresh B: containment the other way round
			bb := gen.RandShape(r, kb, 2)
			if sa := subShape(r, bb, ka); sa != nil {
				a, b, fam = sa, bb, "super-shape"
			}
		}
		if b == nil {
			b = gen.RandShapeNear(r, kb, a, 2)
		}
		sink(a, b, fam, false, r.Intn(2) == 0, i)
	}
}

func pairCase(a, b *exact.Shape, extra map[string]interface{}) map[string]interface{} {
	m := map[string]interface{}{"a": sj(a), "b": sj(b)}
	for k, v := range extra {
		m[k] = v
	}
	return m
}

func parsePairCase(raw json.RawMessage) (a, b *exact.Shape, m map[string]json.RawMessage, ok bool) {
	if json.Unmarshal(raw, &m) != nil {
		return
	}
	var ja, jb shapeJSON
	if json.Unmarshal(m["a"], &ja) != nil || json.Unmarshal(m["b"], &jb) != nil {
		return
	}
	a, ok1 := unsj(ja)
	b, ok2 := unsj(jb)
	return a, b, m, ok1 && ok2
}

// largePairs draws pairs in which one shape is big enough for the quadtree to
// split (more than 32 segments) or in which a shape of at least 16 points
// sits inside a hole and touches its boundary.
func largePairs(c *mon.Ctx, o pairOpts, item *int, sink pairSink) {
	for i := 0; i < o.large; i++ {
		*item++
		if !c.Mine(*item) {
			continue
		}
		r := c.SubRng("large", i)
		var a, b *exact.Shape
		fam := "large"
		switch i % 4 {
		case 0, 1: // big ring as polygon (optionally with small holes), contact-biased partner
			ring := gen.RandBigRing(r)
			a = &exact.Shape{Kind: exact.KPoly, Ext: ring}
			if r.Intn(3) == 0 {
				a.Holes = gen.AddHoles(r, ring, 2)
			}
			b = gen.RandShapeNear(r, kinds4[(i/4)%4], a, 1)
			// partners through the centre lines of the box: where a split node's mid lines are
			if r.Intn(3) == 0 {
				mn, mx := gen.Box(ring)
				if (mn.X+mx.X)%2 == 0 && (mn.Y+mx.Y)%2 == 0 {
					mid := exact.P{X: (mn.X + mx.X) / 2, Y: (mn.Y + mx.Y) / 2}
					switch r.Intn(3) {
					case 0:
						b = &exact.Shape{Kind: exact.KPoint, Pts: []exact.P{{X: ring[r.Intn(len(ring))].X, Y: mid.Y}}}
					case 1:
						b = &exact.Shape{Kind: exact.KLine, Pts: []exact.P{{X: mn.X - gen.U, Y: mid.Y}, {X: mid.X, Y: mid.Y}, {X: mid.X, Y: mx.Y + gen.U}}}
					default:
						b = &exact.Shape{Kind: exact.KRect, Pts: []exact.P{{X: mn.X, Y: mn.Y}, mid}}
					}
				}
			}
			fam = "large-ring"
		case 2: // big ring as the partner (as line or polygon) of a smaller shape
			ring := gen.RandBigRing(r)
			if r.Intn(2) == 0 {
				b = &exact.Shape{Kind: exact.KPoly, Ext: ring}
			} else {
				b = &exact.Shape{Kind: exact.KLine, Pts: []exact.P(ring)}
			}
			a = gen.RandShapeNear(r, kinds4[(i/4)%4], b, 2)
			fam = "large-partner"
		default: // a shape of >= 16 points inside a hole, touching it
			rad := int64(2 + r.Intn(4))
			cx, cy := r.Int63n(9)-4, r.Int63n(9)-4
			hole := exact.Ring{{X: (cx - rad) * gen.U, Y: (cy - rad) * gen.U}, {X: (cx + rad) * gen.U, Y: (cy - rad) * gen.U}, {X: (cx + rad) * gen.U, Y: (cy + rad) * gen.U}, {X: (cx - rad) * gen.U, Y: (cy + rad) * gen.U}}
			frame := exact.Ring{{X: (cx - rad - 3) * gen.U, Y: (cy - rad - 3) * gen.U}, {X: (cx + rad + 3) * gen.U, Y: (cy - rad - 3) * gen.U}, {X: (cx + rad + 3) * gen.U, Y: (cy + rad + 3) * gen.U}, {X: (cx - rad - 3) * gen.U, Y: (cy + rad + 3) * gen.U}}
			if r.Intn(2) == 0 {
				hole = gen.Reverse(hole)
			}
			a = &exact.Shape{Kind: exact.KPoly, Ext: frame, Holes: []exact.Ring{gen.Rotate(hole, r.Intn(4))}}
			// star of 16..24 vertices on the half lattice inside the hole's box
			inner := gen.RandStar(r, 16+r.Intn(9), 2*rad-int64(r.Intn(2)), 2*cx, 2*cy)
			for k := range inner {
				inner[k] = exact.P{X: inner[k].X / 2, Y: inner[k].Y / 2}
			}
			if !inner.Simple() {
				continue
			}
			if r.Intn(2) == 0 {
				b = &exact.Shape{Kind: exact.KPoly, Ext: inner}
				if r.Intn(2) == 0 {
					// a polygon with a hole of its own, inside (or touching) the hole of the frame
					b.Holes = gen.AddHoles(r, inner, 1)
				}
			} else {
				b = &exact.Shape{Kind: exact.KLine, Pts: []exact.P(gen.Rotate(inner, r.Intn(len(inner))))}
			}
			if r.Intn(2) == 0 {
				a, b = b, a
			}
			fam = "big-in-hole"
		}
		if a == nil || b == nil {
			continue
		}
		sink(a, b, fam, false, r.Intn(2) == 0, 1000000+i)
	}
}
