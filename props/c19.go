package props

import (
	"encoding/json"
	"fmt"

	"github.com/tidwall/geojson/geometry"

	"verif/internal/exact"
	"verif/internal/mon"
)

// C19: segment-level kernels are exact and symmetric.

type c19Case struct {
	Op  string `json:"op"`
	A   [2]jpt `json:"seg"`
	B   [2]jpt `json:"other,omitempty"`
	Pt  *jpt   `json:"point,omitempty"`
	Got string `json:"got"`
	Exp string `json:"want"`
}

func c19Ray(c *mon.Ctx, s exact.Seg, p exact.P) {
	gs, gp := gseg(s), gpt(p)
	on := exact.OnSeg(s.A, s.B, p)
	in := !on && exact.RayIn(s.A, s.B, p)
	res := gs.Raycast(gp)
	c.Eval()
	if res.On != on || res.In != in {
		pp := jp(p)
		c.Violation("raycast", "Raycast disagrees with the half-open crossing rule", c19Case{Op: "Raycast", A: [2]jpt{jp(s.A), jp(s.B)}, Pt: &pp,
			Got: fmt.Sprintf("In=%v On=%v", res.In, res.On), Exp: fmt.Sprintf("In=%v On=%v", in, on)})
	}
	if gs.ContainsPoint(gp) != on {
		pp := jp(p)
		c.Violation("containspoint", "Segment.ContainsPoint", c19Case{Op: "ContainsPoint", A: [2]jpt{jp(s.A), jp(s.B)}, Pt: &pp, Got: fmt.Sprint(!on), Exp: fmt.Sprint(on)})
	}
	if col := exact.Collinear(s, p); gs.CollinearPoint(gp) != col {
		pp := jp(p)
		c.Violation("collinear", "Segment.CollinearPoint", c19Case{Op: "CollinearPoint", A: [2]jpt{jp(s.A), jp(s.B)}, Pt: &pp, Got: fmt.Sprint(!col), Exp: fmt.Sprint(col)})
	}
	if on || in {
		c.Count("ray_on_or_in")
	}
}

func c19Pair(c *mon.Ctx, s, t exact.Seg) (meet bool) {
	gs, gt := gseg(s), gseg(t)
	meet = exact.SegSeg(s, t)
	g1, g2 := gs.IntersectsSegment(gt), gt.IntersectsSegment(gs)
	c.Eval()
	if g1 != meet || g2 != meet {
		kind := "segseg"
		if g1 != g2 {
			kind = "segseg-asymmetric"
		}
		c.Violation(kind, "IntersectsSegment disagrees with exact closed-segment intersection", c19Case{Op: "IntersectsSegment", A: [2]jpt{jp(s.A), jp(s.B)}, B: [2]jpt{jp(t.A), jp(t.B)},
			Got: fmt.Sprintf("a.b=%v b.a=%v", g1, g2), Exp: fmt.Sprint(meet)})
	}
	cs := exact.SegContainsSeg(s, t)
	if gs.ContainsSegment(gt) != cs {
		c.Violation("segcontains", "ContainsSegment", c19Case{Op: "ContainsSegment", A: [2]jpt{jp(s.A), jp(s.B)}, B: [2]jpt{jp(t.A), jp(t.B)}, Got: fmt.Sprint(!cs), Exp: fmt.Sprint(cs)})
	}
	return meet
}

func c19Rect(c *mon.Ctx, s exact.Seg) {
	r := gseg(s).Rect()
	mn := exact.P{X: min(s.A.X, s.B.X), Y: min(s.A.Y, s.B.Y)}
	mx := exact.P{X: max(s.A.X, s.B.X), Y: max(s.A.Y, s.B.Y)}
	if r.Min != gpt(mn) || r.Max != gpt(mx) {
		c.Violation("segrect", "Segment.Rect", c19Case{Op: "Rect", A: [2]jpt{jp(s.A), jp(s.B)}, Got: fmt.Sprint(r), Exp: fmt.Sprint(gpt(mn), gpt(mx))})
	}
	// Move translates both end points (exact deltas)
	g := gseg(s)
	for _, d := range [][2]float64{{3, -2}, {-0.5, 1024}, {0, 0.0625}} {
		mv := g.Move(d[0], d[1])
		if mv.A.X != g.A.X+d[0] || mv.A.Y != g.A.Y+d[1] || mv.B.X != g.B.X+d[0] || mv.B.Y != g.B.Y+d[1] {
			c.Violation("segmove", "Segment.Move", c19Case{Op: "Move", A: [2]jpt{jp(s.A), jp(s.B)}, Got: fmt.Sprint(mv), Exp: fmt.Sprint(d)})
		}
	}
}

func c19Run(c *mon.Ctx) {
	k := int64(c.Pick(6, 8))
	// exhaustive lattice
	var pts [][2]int64
	for i := int64(0); i < k; i++ {
		for j := int64(0); j < k; j++ {
			pts = append(pts, [2]int64{i, j})
		}
	}
	item := 0
	for ei, e := range encodings {
		for ai, a := range pts {
			item++
			if !c.Mine(item) {
				continue
			}
			pa := e.P(a[0], a[1])
			for _, b := range pts {
				s := exact.Seg{A: pa, B: e.P(b[0], b[1])}
				c.SetCase(func() interface{} { return map[string]interface{}{"enc": e.Name, "seg": [2]jpt{jp(s.A), jp(s.B)}} })
				c19Rect(c, s)
				for _, p := range pts {
					c19Ray(c, s, e.P(p[0], p[1]))
				}
				for _, cc := range pts {
					pc := e.P(cc[0], cc[1])
					for _, d := range pts {
						t := exact.Seg{A: pc, B: e.P(d[0], d[1])}
						if c19Pair(c, s, t) {
							c.Count("pairs_meeting")
						}
					}
				}
				if ei == 0 {
					c.NonTrivial(uint64(mon.NewH().I(int64(ai)).I(b[0]).I(b[1])))
				}
			}
			if c.WantSample() {
				c.Sample(map[string]interface{}{"kind": "lattice", "k": k, "encoding": e.Name, "first_vertex": jp(pa), "note": "all segments from this vertex x all lattice points and all lattice segments"})
			}
		}
	}
	c.Count("lattice_done")
	// random on the large lattice, biased to degenerate configurations
	n := c.Pick(16000000, 320000000) / c.NShards
	r := c.Rng
	lim := int64(1 << 20)
	rc := func() int64 {
		switch r.Intn(4) {
		case 0:
			return (r.Int63n(2*lim*8+1) - lim*8) * 2 // eighths over the whole range
		case 1:
			return (r.Int63n(2*lim+1) - lim) * 16 // integers
		default:
			return (r.Int63n(41) - 20) * 16 // small
		}
	}
	for i := 0; i < n; i++ {
		base := exact.P{X: rc(), Y: rc()}
		near := func() exact.P {
			if r.Intn(3) == 0 {
				return exact.P{X: rc(), Y: rc()}
			}
			p := exact.P{X: base.X + (r.Int63n(33)-16)*int64(1<<uint(r.Intn(5))), Y: base.Y + (r.Int63n(33)-16)*int64(1<<uint(r.Intn(5)))}
			if p.X > lim*16 || p.X < -lim*16 || p.Y > lim*16 || p.Y < -lim*16 {
				return base
			}
			return p
		}
		a, b := near(), near()
		s := exact.Seg{A: a, B: b}
		var t exact.Seg
		var p exact.P
		switch r.Intn(6) {
		case 0: // collinear with s
			dx, dy := b.X-a.X, b.Y-a.Y
			m1, m2 := r.Int63n(7)-3, r.Int63n(7)-3
			t = exact.Seg{A: exact.P{X: a.X + m1*dx, Y: a.Y + m1*dy}, B: exact.P{X: a.X + m2*dx, Y: a.Y + m2*dy}}
			p = exact.P{X: a.X + (r.Int63n(5)-2)*dx, Y: a.Y + (r.Int63n(5)-2)*dy}
		case 1: // shares an endpoint
			t = exact.Seg{A: b, B: near()}
			p = exact.P{X: near().X, Y: a.Y}
		case 2: // level with an endpoint
			t = exact.Seg{A: near(), B: near()}
			p = exact.P{X: near().X, Y: b.Y}
		case 3: // endpoint of t on s (midpoint when representable)
			mx, my := a.X+b.X, a.Y+b.Y
			if mx%2 == 0 && my%2 == 0 {
				t = exact.Seg{A: exact.P{X: mx / 2, Y: my / 2}, B: near()}
				p = t.A
			} else {
				t = exact.Seg{A: a, B: near()}
				p = a
			}
		default:
			t = exact.Seg{A: near(), B: near()}
			p = near()
		}
		ok := true
		for _, q := range []exact.P{t.A, t.B, p} {
			if q.X > lim*16 || q.X < -lim*16 || q.Y > lim*16 || q.Y < -lim*16 {
				ok = false
			}
		}
		if !ok {
			continue
		}
		c.SetCase(func() interface{} {
			return map[string]interface{}{"seg": [2]jpt{jp(s.A), jp(s.B)}, "other": [2]jpt{jp(t.A), jp(t.B)}, "point": jp(p)}
		})
		c19Ray(c, s, p)
		c19Ray(c, t, p)
		meet := c19Pair(c, s, t)
		c19Rect(c, t)
		if meet {
			c.Count("pairs_meeting")
			c.NonTrivial(uint64(mon.NewH().I(s.A.X).I(s.A.Y).I(s.B.X).I(s.B.Y).I(t.A.X).I(t.A.Y).I(t.B.X).I(t.B.Y)))
		}
		if i < 2 && c.WantSample() {
			c.Sample(map[string]interface{}{"kind": "random", "seg": [2]jpt{jp(s.A), jp(s.B)}, "other": [2]jpt{jp(t.A), jp(t.B)}, "point": jp(p), "meet": meet})
		}
	}
}

func c19Replay(kind string, raw json.RawMessage) (bool, string) {
	var cs c19Case
	if err := json.Unmarshal(raw, &cs); err != nil {
		return false, err.Error()
	}
	toP := func(j jpt) exact.P { p, _ := exact.FromFloat(j[0], j[1]); return p }
	s := exact.Seg{A: toP(cs.A[0]), B: toP(cs.A[1])}
	gs := geometry.Segment{A: geometry.Point{X: cs.A[0][0], Y: cs.A[0][1]}, B: geometry.Point{X: cs.A[1][0], Y: cs.A[1][1]}}
	switch cs.Op {
	case "Raycast", "ContainsPoint", "CollinearPoint":
		p := toP(*cs.Pt)
		gp := geometry.Point{X: cs.Pt[0], Y: cs.Pt[1]}
		on := exact.OnSeg(s.A, s.B, p)
		in := !on && exact.RayIn(s.A, s.B, p)
		res := gs.Raycast(gp)
		bad := res.On != on || res.In != in || gs.ContainsPoint(gp) != on || gs.CollinearPoint(gp) != exact.Collinear(s, p)
		return bad, fmt.Sprintf("Raycast=%+v want In=%v On=%v", res, in, on)
	case "IntersectsSegment", "ContainsSegment":
		t := exact.Seg{A: toP(cs.B[0]), B: toP(cs.B[1])}
		gt := gseg(t)
		w := exact.SegSeg(s, t)
		g1, g2 := gs.IntersectsSegment(gt), gt.IntersectsSegment(gs)
		bad := g1 != w || g2 != w || gs.ContainsSegment(gt) != exact.SegContainsSeg(s, t)
		return bad, fmt.Sprintf("a.b=%v b.a=%v want %v", g1, g2, w)
	}
	return false, "unknown op"
}

func init() {
	mon.Register(&mon.Prop{
		ID:          "C19",
		Rule:        "exhaustive: every ordered segment x every point and every ordered segment pair on the k x k lattice (k=6 quick, 8 thorough) under 6 affine re-encodings (integers, eighths, negated, +-2^20 translations, axis swap); random: segment/segment/point triples on the +-2^20 lattice biased to collinear, nested, endpoint-sharing and level-with-endpoint layouts. Non-trivial = distinct lattice segment (exhaustive part) or distinct random pair whose closed segments actually meet.",
		Assumptions: []string{"coordinates are multiples of 1/8 with magnitude <= 2^20, where the library's float arithmetic on differences and products is exact", "oracle: int64 orientation predicates in internal/exact (cross-checked against an independent big.Rat implementation in its unit test)"},
		Exhaustive:  func(string) bool { return true },
		Run:         c19Run,
		MustSee:     []string{"lattice_done", "pairs_meeting", "ray_on_or_in"},
		Replay:      c19Replay,
	})
}
