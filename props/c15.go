package props

import (
	"encoding/json"
	"fmt"
	"math"
	"math/rand"

	"github.com/tidwall/geojson"
	"github.com/tidwall/geojson/geo"
	"github.com/tidwall/geojson/geometry"

	"verif/internal/mon"
	"verif/internal/sphere"
)

// C15: great-circle primitives are mutually consistent.

const piR = math.Pi * sphere.R

type c15Case struct {
	What   string    `json:"what"`
	Args   []float64 `json:"args"`
	Got    []float64 `json:"got"`
	Want   []float64 `json:"want,omitempty"`
	Detail string    `json:"detail,omitempty"`
}

// sampleLoc draws a location with emphasis on poles and the antimeridian.
func sampleLoc(r *rand.Rand) (lat, lon float64) {
	switch r.Intn(8) {
	case 0:
		lat = 90 - math.Pow(10, -float64(r.Intn(14)))
		if r.Intn(2) == 0 {
			lat = -lat
		}
	case 1:
		lat = []float64{90, -90, 0, 45, -45, 89.999999, -89.999999}[r.Intn(7)]
	default:
		lat = math.Asin(r.Float64()*2-1) / math.Pi * 180
	}
	switch r.Intn(8) {
	case 0:
		lon = 180 - math.Pow(10, -float64(r.Intn(14)))
		if r.Intn(2) == 0 {
			lon = -lon
		}
	case 1:
		lon = []float64{180, -180, 0, 90, -90, 179.999999}[r.Intn(6)]
	default:
		lon = r.Float64()*360 - 180
	}
	return
}

func sampleDist(r *rand.Rand) float64 {
	switch r.Intn(8) {
	case 0:
		return 0
	case 1:
		return math.Pow(10, r.Float64()*4-3) // mm .. 10 m
	case 2:
		return piR - math.Pow(10, r.Float64()*9-3) // just below half circumference
	case 3:
		return piR / 2 * (1 + r.NormFloat64()*1e-6)
	default:
		return math.Pow(10, r.Float64()*7.3) // 1 m .. 20 000 km
	}
}

func tolD(d float64) float64 { return math.Max(1e-3, 1e-6*d) }

func c15Run(c *mon.Ctx) {
	n := c.Pick(40000000, 800000000) / c.NShards
	r := c.Rng
	nearSing := 0
	for i := 0; i < n; i++ {
		la, lo := sampleLoc(r)
		var lb, lp float64
		switch r.Intn(6) {
		case 0: // antipodal-ish
			lb, lp = -la, lo+180
			if lp > 180 {
				lp -= 360
			}
			if r.Intn(2) == 0 {
				lb += r.NormFloat64() * math.Pow(10, -float64(r.Intn(12)))
				lb = math.Max(-90, math.Min(90, lb))
			}
		case 1: // very close
			lb = math.Max(-90, math.Min(90, la+r.NormFloat64()*math.Pow(10, -float64(r.Intn(12)))))
			lp = lo + r.NormFloat64()*math.Pow(10, -float64(r.Intn(12)))
			if lp > 180 || lp < -180 {
				lp = lo
			}
		case 2:
			lb, lp = la, lo
		default:
			lb, lp = sampleLoc(r)
		}
		c.SetCase(func() interface{} { return c15Case{What: "pair", Args: []float64{la, lo, lb, lp}} })
		c.Try(func() {
			ref := sphere.Dist(la, lo, lb, lp)
			dab, dba := geo.DistanceTo(la, lo, lb, lp), geo.DistanceTo(lb, lp, la, lo)
			c.Eval()
			mk := func(what, detail string, got ...float64) c15Case {
				return c15Case{What: what, Args: []float64{la, lo, lb, lp}, Got: got, Want: []float64{ref}, Detail: detail}
			}
			if math.IsNaN(dab) || math.IsNaN(dba) {
				c.Violation("distance-nan", "DistanceTo is NaN", mk("DistanceTo", "", dab, dba))
				return
			}
			if math.Float64bits(dab) != math.Float64bits(dba) {
				// symmetric within the tolerance of the statement; a difference in the last bits is counted, not judged
				c.Count("distance_pairs_not_bit_symmetric")
				if math.Abs(dab-dba) > tolD(ref) {
					c.Violation("distance-asymmetric", "DistanceTo is not symmetric", mk("DistanceTo", "", dab, dba))
				}
			}
			if dab < 0 || dab > piR+1e-3 {
				c.Violation("distance-range", "DistanceTo outside [0, pi R]", mk("DistanceTo", "", dab))
			}
			if la == lb && lo == lp && math.Abs(dab) > 1e-3 {
				c.Violation("distance-identical", "DistanceTo of identical locations is not zero", mk("DistanceTo", "", dab))
			}
			// agreement with the reference; near the antipode the haversine is
			// flat: asin'(x) blows up, so allow its own resolution there
			tol := tolD(ref)
			if rem := piR - ref; rem < 30000 {
				// asin(sqrt(h)) near 1: resolution ~ R*sqrt(2 ulp) ~ 0.13 m at the antipode, shrinking as rem grows
				tol = math.Max(tol, 2*sphere.R*math.Sqrt(2.3e-16)+2*sphere.R*2.3e-16/math.Max(rem/sphere.R, 1e-9))
				nearSing++
			}
			if math.Abs(dab-ref) > tol {
				c.Violation("distance-value", "DistanceTo differs from the reference distance beyond tolerance", mk("DistanceTo", fmt.Sprintf("tol %g", tol), dab))
			}
			if i%4096 == 0 {
				if res := sphere.Residual(la, lo, lb, lp, ref) * sphere.R; res > 1e-5 {
					c.Inconclusive("reference distance not accurate enough on this input")
				} else {
					c.Count("reference_residual_checked")
				}
			}
			// haversine in range, and object-level distance of point-like objects
			h := geo.Haversine(la, lo, lb, lp)
			if math.IsNaN(h) || h < 0 {
				c.Violation("haversine-range", "Haversine negative or NaN", mk("Haversine", "", h))
			}
			if i%16 == 0 {
				pa, pb := geometry.Point{X: lo, Y: la}, geometry.Point{X: lp, Y: lb}
				objs := []geojson.Object{geojson.NewPoint(pa), geojson.NewSimplePoint(pa)}
				for _, oa := range objs {
					for _, ob := range []geojson.Object{geojson.NewPoint(pb), geojson.NewSimplePoint(pb)} {
						if od := oa.Distance(ob); math.Float64bits(od) != math.Float64bits(dab) {
							c.Violation("object-distance", "Object.Distance of point-like objects differs from DistanceTo", mk("Object.Distance", "", od, dab))
						}
					}
				}
				c.Count("object_distance_checked")
			}
			if piR-ref < 1 || ref < 1e-3 || math.Abs(la) > 89.99 || math.Abs(lb) > 89.99 {
				c.NonTrivial(uint64(mon.NewH().U(math.Float64bits(la)).U(math.Float64bits(lo)).U(math.Float64bits(lb)).U(math.Float64bits(lp))))
			}
		})
		// destination / bearing
		d := sampleDist(r)
		brg := r.Float64() * 360
		if r.Intn(6) == 0 {
			brg = []float64{0, 90, 180, 270, 45, 359.999999}[r.Intn(6)]
		}
		c.SetCase(func() interface{} { return c15Case{What: "DestinationPoint", Args: []float64{la, lo, d, brg}} })
		c.Try(func() {
			if d >= piR {
				return
			}
			dl, dn := geo.DestinationPoint(la, lo, d, brg)
			rl, rn := sphere.Dest(la, lo, d, brg)
			c.Eval()
			mk := func(what, detail string, got ...float64) c15Case {
				return c15Case{What: what, Args: []float64{la, lo, d, brg}, Got: got, Want: []float64{rl, rn}, Detail: detail}
			}
			if math.IsNaN(dl) || math.IsNaN(dn) || dl < -90 || dl > 90 || dn < -180 || dn > 180 {
				c.Violation("destination-range", "DestinationPoint outside [-90,90]x[-180,180] or NaN", mk("DestinationPoint", "", dl, dn))
				return
			}
			// distance back, judged with the reference distance function so
			// that only DestinationPoint is on trial
			back := sphere.Dist(la, lo, dl, dn)
			if e := math.Abs(back - d); e > tolD(d) {
				cs := mk("DestinationPoint", fmt.Sprintf("distance back %v, want %v (error %g, tolerance %g)", back, d, e, tolD(d)), dl, dn)
				if 90-math.Abs(rl) < 1e-4 && e < 0.5 {
					c.KnownOrViolation("F19", "destination-distance", "landing within ~10 m of a pole loses up to decimetres (asin near 1)", cs)
				} else {
					c.Violation("destination-distance", "travelling d does not end at distance d from the start", cs)
				}
			}
			// initial bearing, conditioned
			if d >= 1 && 90-math.Abs(la) > 0.01 && 90-math.Abs(rl) > 0.01 && piR-d > 1000 {
				gb := geo.BearingTo(la, lo, dl, dn)
				diff := math.Abs(math.Mod(gb-brg+540, 360) - 180)
				ang := d / sphere.R
				cond := 1/math.Abs(math.Sin(ang)) + 1/math.Cos(la*math.Pi/180) + 1/math.Cos(rl*math.Pi/180)
				// the destination itself is only good to tolD(d): that alone moves the bearing by tol/(R sin(ang))
				allow := 1e-6*cond + tolD(d)/(sphere.R*math.Abs(math.Sin(ang)))*180/math.Pi
				c.Count("bearing_checked")
				if diff > allow {
					c.Violation("bearing", "initial bearing to the destination differs from the bearing travelled", mk("BearingTo", fmt.Sprintf("bearing %v vs %v (diff %g, allowed %g)", gb, brg, diff, allow), gb))
				}
			}
			if 90-math.Abs(rl) < 1e-3 || d < 1 || piR-d < 1000 {
				c.NonTrivial(uint64(mon.NewH().U(math.Float64bits(la)).U(math.Float64bits(lo)).U(math.Float64bits(d)).U(math.Float64bits(brg))))
			}
		})
		// BearingTo against the reference bearing directly (independent of the
		// accuracy of DestinationPoint), with bearings next to the cardinal ones
		if i%4 == 0 {
			c.Try(func() {
				if math.Abs(la) > 80 {
					return
				}
				dd := math.Pow(10, r.Float64()*6.5) // 1 m .. 3000 km
				bb := []float64{0, 90, 180, 270}[r.Intn(4)] + []float64{1, -1}[r.Intn(2)]*math.Pow(10, -float64(r.Intn(8)))*(0.3+r.Float64())
				if r.Intn(3) == 0 {
					bb = r.Float64() * 360
				}
				bl, bn := sphere.Dest(la, lo, dd, bb)
				if math.Abs(bl) > 85 {
					return
				}
				got := geo.BearingTo(la, lo, bl, bn)
				ref := sphere.Bearing(la, lo, bl, bn)
				diff := math.Abs(math.Mod(got-ref+540, 360) - 180)
				// 1e-6 degree, scaled by the conditioning of the problem: the coordinates are only
				// good to about 1e-9 m, which turns the bearing by 1e-9/d radians
				allow := 1e-6 + 5e-9/dd*180/math.Pi + 1e-6/math.Cos(la*math.Pi/180)
				c.Eval()
				c.Count("bearing_direct_checked")
				if diff > allow || got < 0 || got >= 360 || math.IsNaN(got) {
					c.Violation("bearing-direct", "BearingTo differs from the reference initial bearing", c15Case{What: "BearingTo", Args: []float64{la, lo, bl, bn}, Got: []float64{got}, Want: []float64{ref}, Detail: fmt.Sprintf("distance %.3f m, diff %g deg, allowed %g deg", dd, diff, allow)})
				}
			})
		}
		// haversine conversions, monotonicity, normalisation
		c.Try(func() {
			d1 := sampleDist(r)
			if d1 >= piR {
				d1 = piR * r.Float64()
			}
			c.Eval()
			h1 := geo.DistanceToHaversine(d1)
			back := geo.DistanceFromHaversine(h1)
			tol := tolD(d1)
			if rem := piR - d1; rem < 30000 {
				tol = math.Max(tol, 2*sphere.R*math.Sqrt(2.3e-16)+2*sphere.R*2.3e-16/math.Max(rem/sphere.R, 1e-9))
			}
			if math.IsNaN(back) || math.Abs(back-d1) > tol {
				c.Violation("haversine-roundtrip", "DistanceFromHaversine(DistanceToHaversine(d)) differs from d", c15Case{What: "haversine round trip", Args: []float64{d1}, Got: []float64{h1, back}})
			}
			// strictly increasing: compare with a distance that is larger by
			// at least what the haversine can resolve
			step := math.Max(d1*1e-9, 1e-3)
			ang := d1 / sphere.R
			sl := math.Sin(ang) / 2 // dh/d(angle)
			if sl > 1e-12 {
				step = math.Max(step, 8*2.3e-16*math.Max(h1, 1e-300)/sl*sphere.R)
			} else {
				step = math.Max(step, sphere.R*math.Sqrt(8*2.3e-16))
			}
			d2 := d1 + step
			if d2 < piR {
				h2 := geo.DistanceToHaversine(d2)
				c.Count("monotone_checked")
				if !(h2 > h1) {
					c.Violation("haversine-monotone", "the haversine is not strictly increasing in the distance", c15Case{What: "monotone", Args: []float64{d1, d2}, Got: []float64{h1, h2}})
				}
			}
			// normalisation
			m := d1
			switch r.Intn(4) {
			case 0:
				m = d1 + float64(r.Intn(5))*2*piR
			case 1: // anywhere within eight circumferences: the remainder lands on the far side as often as on the near side
				m = r.Float64() * 16 * piR
				c.Count("normalize_beyond_half")
			case 2:
				m = -r.Float64() * 6 * piR
			}
			nm := geo.NormalizeDistance(m)
			if nn := geo.NormalizeDistance(nm); nn != nm {
				c.Violation("normalize-idempotent", "NormalizeDistance is not idempotent", c15Case{What: "NormalizeDistance", Args: []float64{m}, Got: []float64{nm, nn}})
			}
			ha, hb := geo.DistanceToHaversine(m), geo.DistanceToHaversine(nm)
			if math.Abs(ha-hb) > 1e-9*math.Max(1e-6, math.Max(ha, hb))+float64(int(math.Abs(m)/(2*piR)))*1e-12 {
				c.Violation("normalize-haversine", "NormalizeDistance changes the haversine", c15Case{What: "NormalizeDistance", Args: []float64{m}, Got: []float64{nm, ha, hb}})
			}
			// semicircles
			s1, s2 := geo.DegsToSemi(la), geo.DegsToSemi(lo)
			bl, bo := geo.SemiToDegs(s1), geo.SemiToDegs(s2)
			dlon := math.Abs(math.Mod(bo-lo+540, 360) - 180)
			ground := math.Hypot((bl-la)*math.Pi/180*sphere.R, dlon*math.Pi/180*sphere.R*math.Cos(la*math.Pi/180))
			c.Count("semicircle_checked")
			if ground > 0.02 {
				c.Violation("semicircle", "semicircle encoding does not round-trip within 2 cm", c15Case{What: "semicircles", Args: []float64{la, lo}, Got: []float64{bl, bo, ground}})
			}
		})
		if i < 3 && c.WantSample() {
			c.Sample(c15Case{What: "sample tuple (locA, locB, distance, bearing)", Args: []float64{la, lo, lb, lp, d, brg}})
		}
	}
	c.CountN("near_antipode_pairs", int64(nearSing))
}

func c15Replay(kind string, raw json.RawMessage) (bool, string) {
	var cs c15Case
	if err := json.Unmarshal(raw, &cs); err != nil {
		return false, "recorded case is not structured (it contained NaN): " + string(raw)
	}
	a := cs.Args
	switch {
	case cs.What == "DestinationPoint" || cs.What == "BearingTo":
		if len(a) != 4 {
			break
		}
		dl, dn := geo.DestinationPoint(a[0], a[1], a[2], a[3])
		back := sphere.Dist(a[0], a[1], dl, dn)
		bad := math.IsNaN(dl) || math.IsNaN(dn) || dl < -90 || dl > 90 || dn < -180 || dn > 180 || math.Abs(back-a[2]) > tolD(a[2])
		return bad, fmt.Sprintf("DestinationPoint=(%v,%v) distance back %v want %v (tolerance %g)", dl, dn, back, a[2], tolD(a[2]))
	case len(a) == 4:
		d1, d2 := geo.DistanceTo(a[0], a[1], a[2], a[3]), geo.DistanceTo(a[2], a[3], a[0], a[1])
		ref := sphere.Dist(a[0], a[1], a[2], a[3])
		bad := math.IsNaN(d1) || math.Abs(d1-d2) > tolD(ref) || d1 < 0 || d1 > piR+1e-3 || math.Abs(d1-ref) > math.Max(tolD(ref), 0.3)
		return bad, fmt.Sprintf("DistanceTo=%v / %v reference %v", d1, d2, ref)
	case len(a) == 1:
		h := geo.DistanceToHaversine(a[0])
		back := geo.DistanceFromHaversine(h)
		return math.IsNaN(back) || math.Abs(back-a[0]) > math.Max(tolD(a[0]), 0.5), fmt.Sprintf("haversine %v back %v", h, back)
	}
	return false, "case kind not replayable: " + cs.What
}

func init() {
	mon.Register(&mon.Prop{
		ID:          "C15",
		Rule:        "random tuples (location A, location B, distance, bearing) with locations biased to the poles (90-10^-k), the antimeridian, antipodal and nearly coincident pairs, distances from 0 and millimetres to just below half the circumference, cardinal and random bearings; judged against the 3-vector reference (error bounded by a 200-bit residual check on a sample). Non-trivial = distinct tuple near a singular place (within 1 m of the antipode, below 1 mm, within 0.01 degree of a pole, destination within 0.001 degree of a pole).",
		Assumptions: []string{"reference: internal/sphere (atan2 of cross and dot products), accurate to < 10^-5 m (checked)", "tolerances as the statement gives them: max(1 mm, 1e-6 d); near the antipode the distance-from-haversine resolution (~0.13-0.3 m) is allowed for, as the statement's 'converts without loss' cannot be finer than one ulp of the haversine", "known finding F19 (destination within ~10 m of a pole) is matched with a magnitude bound of 0.5 m"},
		Run:         c15Run,
		Replay:      c15Replay,
		MustSee:     []string{"normalize_beyond_half", "bearing_direct_checked", "bearing_checked", "monotone_checked", "semicircle_checked", "object_distance_checked", "reference_residual_checked", "near_antipode_pairs"},
	})
}
