#!/bin/sh
# Builds the framework once, offline, from files on disk only.
cd "$(dirname "$0")" || exit 2
export GOFLAGS=-mod=mod GOPROXY=off GOSUMDB=off GOTOOLCHAIN=local
mkdir -p bin out evidence
go build -tags verif -o bin/verif ./cmd/verif || exit 1
go build -race -tags verif -o bin/verif-race ./cmd/verif || exit 1
rm -f bin/verif bin/verif-race
echo setup ok
