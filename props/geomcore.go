package props

import (
	"encoding/json"
	"fmt"

	"github.com/tidwall/geojson"
	"github.com/tidwall/geojson/geometry"

	"verif/internal/exact"
	"verif/internal/mon"
)

// libShape is the library-side instance of an exact shape.
type libShape struct {
	src  *exact.Shape
	g    geometry.Geometry
	obj  geojson.Object
	ic   IdxCfg
	clos bool
}

// buildLib constructs the geometry-level and object-level library values.
// closed selects whether polygon rings repeat their closing vertex.
func buildLib(s *exact.Shape, ic IdxCfg, closed bool) libShape {
	return buildLibScaled(s, ic, closed, 1)
}

// buildLibScaled multiplies every coordinate by sc, a power of two: the
// scaled coordinates are exactly representable and every product and
// quotient the library forms scales exactly, so all answers must be the same
// as at scale 1 (and the exact oracle, evaluated on the unscaled shape, still
// applies).  This reaches coordinates such as 2 + 2^-17 that the oracle's
// 1/16 lattice cannot hold.
func buildLibScaled(s *exact.Shape, ic IdxCfg, closed bool, sc float64) libShape {
	return buildLibEnc(s, ic, closed, FEnc{Sc: sc})
}

// buildLibEnc builds the library shape under an exact affine encoding.
func buildLibEnc(s *exact.Shape, ic IdxCfg, closed bool, enc FEnc) libShape {
	l := libShape{src: s, ic: ic, clos: closed}
	sp := enc.Pt
	if enc.Move {
		sp = FEnc{Sc: enc.Sc}.Pt
	}
	sps := func(ps []exact.P, cl bool) []geometry.Point {
		out := make([]geometry.Point, 0, len(ps)+1)
		for _, p := range ps {
			out = append(out, sp(p))
		}
		if cl && len(ps) > 0 {
			out = append(out, sp(ps[0]))
		}
		return out
	}
	switch s.Kind {
	case exact.KPoint:
		p := sp(s.Pts[0])
		l.g, l.obj = p, geojson.NewPoint(p)
	case exact.KRect:
		r := geometry.Rect{Min: sp(s.Pts[0]), Max: sp(s.Pts[1])}
		l.g, l.obj = r, geojson.NewRect(r)
	case exact.KLine:
		ln := newLineOwn(sps(s.Pts, false), ic.Opts())
		l.g, l.obj = ln, geojson.NewLineString(ln)
	default:
		var hs [][]geometry.Point
		for _, h := range s.Holes {
			hs = append(hs, sps(h, closed))
		}
		p := newPolyOwn(sps(s.Ext, closed), hs, ic.Opts())
		l.g, l.obj = p, geojson.NewPolygon(p)
	}
	if enc.Move {
		switch v := l.g.(type) {
		case geometry.Point:
			p := v.Move(enc.TX, enc.TY)
			l.g, l.obj = p, geojson.NewPoint(p)
		case geometry.Rect:
			r := v.Move(enc.TX, enc.TY)
			l.g, l.obj = r, geojson.NewRect(r)
		case *geometry.Line:
			ln := v.Move(enc.TX, enc.TY)
			l.g, l.obj = ln, geojson.NewLineString(ln)
		case *geometry.Poly:
			p := v.Move(enc.TX, enc.TY)
			l.g, l.obj = p, geojson.NewPolygon(p)
		}
	}
	return l
}

// scales used by the scaled variants (all powers of two)
var libScales = []float64{1.0 / (1 << 17), 1.0 / (1 << 24), 1.0 / (1 << 30), 1 << 12}

// FEnc is an exact affine encoding applied on the library side only:
// coordinate = T + Sc * lattice value, with Sc a power of two and T such
// that the sum is exactly representable.  The exact oracle, which is
// invariant under such maps, keeps working on the lattice values.  This
// reaches, for instance, rings on a 1/1024 grid next to 2^20.
type FEnc struct {
	Name   string
	Sc     float64
	TX, TY float64
	Move   bool // build at Sc*lattice and let the library translate by (TX,TY) through Move()
}

// Pt applies the encoding.
func (e FEnc) Pt(p exact.P) geometry.Point {
	q := gpt(p)
	return geometry.Point{X: q.X*e.Sc + e.TX, Y: q.Y*e.Sc + e.TY}
}

// Pts applies the encoding to a list.
func (e FEnc) Pts(ps []exact.P) []geometry.Point {
	out := make([]geometry.Point, len(ps))
	for i, p := range ps {
		out[i] = e.Pt(p)
	}
	return out
}

// allEncs: pure power-of-two scalings and the fine encodings.
var allEncs = func() []FEnc {
	var out []FEnc
	for _, sc := range libScales {
		out = append(out, FEnc{Name: fmt.Sprintf("scale %g", sc), Sc: sc})
	}
	out = append(out, fineEncs...)
	return append(out, FEnc{Name: "Move(40,-24)", Sc: 1, TX: 40, TY: -24, Move: true}, FEnc{Name: "Move(0.5,1024)", Sc: 1, TX: 0.5, TY: 1024, Move: true},
		FEnc{Name: "Move(-3,0)", Sc: 1, TX: -3, TY: 0, Move: true}, FEnc{Name: "2^-10 lattice, Move(0,-0.25)", Sc: 1.0 / 1024, TX: 0, TY: -0.25, Move: true})
}()

var fineEncs = []FEnc{
	{Name: "2^-10 at (2^20-4, -(2^20-4))", Sc: 1.0 / 1024, TX: 1<<20 - 4, TY: -(1<<20 - 4)},
	{Name: "2^-17 at (3,-5)", Sc: 1.0 / (1 << 17), TX: 3, TY: -5},
	{Name: "2^-20 at origin", Sc: 1.0 / (1 << 20), TX: 0, TY: 0},
	{Name: "2^-6 at (-(2^20-64), 2^19)", Sc: 1.0 / 64, TX: -(1<<20 - 64), TY: 1 << 19},
}

func gIntersects(a, b libShape) bool {
	switch v := b.g.(type) {
	case geometry.Point:
		return a.g.IntersectsPoint(v)
	case geometry.Rect:
		return a.g.IntersectsRect(v)
	case *geometry.Line:
		return a.g.IntersectsLine(v)
	case *geometry.Poly:
		return a.g.IntersectsPoly(v)
	}
	panic("kind")
}

func gContains(a, b libShape) bool {
	switch v := b.g.(type) {
	case geometry.Point:
		return a.g.ContainsPoint(v)
	case geometry.Rect:
		return a.g.ContainsRect(v)
	case *geometry.Line:
		return a.g.ContainsLine(v)
	case *geometry.Poly:
		return a.g.ContainsPoly(v)
	}
	panic("kind")
}

// shapeJSON renders an exact shape for evidence and replay files.
type shapeJSON struct {
	Kind  string  `json:"kind"`
	Pts   []jpt   `json:"points,omitempty"`
	Ext   []jpt   `json:"exterior,omitempty"`
	Holes [][]jpt `json:"holes,omitempty"`
}

func sj(s *exact.Shape) shapeJSON {
	o := shapeJSON{Kind: s.Kind.String(), Pts: jps(s.Pts), Ext: jps(s.Ext)}
	for _, h := range s.Holes {
		o.Holes = append(o.Holes, jps(h))
	}
	return o
}

func unsj(j shapeJSON) (*exact.Shape, bool) {
	conv := func(js []jpt) ([]exact.P, bool) {
		var out []exact.P
		for _, v := range js {
			p, ok := exact.FromFloat(v[0], v[1])
			if !ok {
				return nil, false
			}
			out = append(out, p)
		}
		return out, true
	}
	s := &exact.Shape{}
	switch j.Kind {
	case "point":
		s.Kind = exact.KPoint
	case "rect":
		s.Kind = exact.KRect
	case "line":
		s.Kind = exact.KLine
	default:
		s.Kind = exact.KPoly
	}
	var ok bool
	if s.Pts, ok = conv(j.Pts); !ok {
		return nil, false
	}
	e, ok := conv(j.Ext)
	if !ok {
		return nil, false
	}
	s.Ext = e
	for _, h := range j.Holes {
		hh, ok := conv(h)
		if !ok {
			return nil, false
		}
		s.Holes = append(s.Holes, hh)
	}
	return s, true
}

func hashShape(h mon.H, s *exact.Shape) mon.H {
	h = h.I(int64(s.Kind))
	h = hashPts(h, s.Pts)
	h = hashPts(h, s.Ext)
	for _, hh := range s.Holes {
		h = hashPts(h, hh)
	}
	return h
}

// ---- decision-site tracer ----

// leafEvent is a recorded decision of one of the three case analyses with the
// verdict of its leaf oracle.
type leafEvent struct {
	Fn          string `json:"fn"`
	Site        string `json:"site"`
	AllowOnEdge bool   `json:"allow_on_edge"`
	Got         bool   `json:"got"`
	Want        bool   `json:"want"`
	Judged      bool   `json:"judged"` // false when the inputs were outside the leaf oracle's domain
	Ring        []jpt  `json:"ring,omitempty"`
	Seg         [2]jpt `json:"seg,omitempty"`
	Line        []jpt  `json:"line,omitempty"`
	Other       []jpt  `json:"other,omitempty"`
}

// Key is the coarse known-finding key of a disagreeing leaf event.
func (e *leafEvent) Key() string {
	return fmt.Sprintf("%s/%s/got=%v/edge=%v", e.Fn, e.Site, e.Got, e.AllowOnEdge)
}

type tracer struct {
	events []*geometry.VerifEvent
	on     bool
}

var theTracer tracer

func init() {
	geometry.VerifSetSink(func(e *geometry.VerifEvent) {
		if theTracer.on {
			theTracer.events = append(theTracer.events, e)
		}
	})
}

// traced runs f with the tracer on and returns the recorded events.
func traced(f func()) []*geometry.VerifEvent {
	theTracer.events = theTracer.events[:0]
	theTracer.on = true
	defer func() { theTracer.on = false }()
	f()
	out := make([]*geometry.VerifEvent, len(theTracer.events))
	copy(out, theTracer.events)
	return out
}

func seriesPts(s geometry.Series) ([]exact.P, bool) {
	n := s.NumPoints()
	ps := make([]geometry.Point, n)
	for i := 0; i < n; i++ {
		ps[i] = s.PointAt(i)
	}
	return epts(ps)
}

func linePts(l *geometry.Line) ([]exact.P, bool) {
	if l == nil {
		return nil, true
	}
	return seriesPts(l)
}

// judgeLeaf evaluates the leaf oracle of one event.
func judgeLeaf(e *geometry.VerifEvent) *leafEvent {
	le := &leafEvent{Fn: e.Fn, Site: e.Site, AllowOnEdge: e.AllowOnEdge, Got: e.Result}
	switch e.Fn {
	case "RCS", "RIS":
		raw, ok := seriesPts(e.Ring)
		a, ok2 := exact.FromFloat(e.Seg.A.X, e.Seg.A.Y)
		b, ok3 := exact.FromFloat(e.Seg.B.X, e.Seg.B.Y)
		if !ok || !ok2 || !ok3 {
			return le
		}
		le.Ring, le.Seg = jps(raw), [2]jpt{jp(a), jp(b)}
		ring := exact.Ring(cyc(raw))
		if !ring.Simple() {
			// degenerate rectangles and the like: outside the leaf oracle's domain
			return le
		}
		le.Judged = true
		switch {
		case e.Fn == "RCS" && e.AllowOnEdge:
			le.Want = exact.SegInClosedRing(ring, a, b)
		case e.Fn == "RCS":
			le.Want = exact.SegInOpenRing(ring, a, b)
		case e.AllowOnEdge:
			le.Want = exact.SegMeetsClosedRing(ring, a, b)
		default:
			le.Want = exact.SegMeetsOpenRing(ring, a, b)
		}
	case "LCL":
		lp, ok := linePts(e.Line)
		op, ok2 := linePts(e.Other)
		if !ok || !ok2 {
			return le
		}
		le.Line, le.Other = jps(lp), jps(op)
		le.Judged = true
		if len(lp) < 2 || len(op) < 2 {
			le.Want = false
			return le
		}
		le.Want = true
		for i := 0; i+1 < len(op); i++ {
			if !exact.LineCoversSegment(lp, op[i], op[i+1]) {
				le.Want = false
				break
			}
		}
	}
	return le
}

// attribution of a wrong top-level answer
type attribution struct {
	Disagreeing []*leafEvent `json:"disagreeing_leaf_events"`
	Events      int          `json:"leaf_events"`
}

func attribute(events []*geometry.VerifEvent) attribution { return attributeScaled(events, 1) }

// attributeScaled judges leaf events recorded from shapes built at scale sc.
func attributeScaled(events []*geometry.VerifEvent, sc float64) attribution {
	return attributeEnc(events, FEnc{Sc: sc})
}

// attributeEnc judges leaf events recorded from shapes built under enc.
func attributeEnc(events []*geometry.VerifEvent, enc FEnc) attribution {
	at := attribution{Events: len(events)}
	for _, e := range events {
		if enc.Sc != 1 || enc.TX != 0 || enc.TY != 0 {
			e = descale(e, enc)
		}
		le := judgeLeaf(e)
		if le.Judged && le.Got != le.Want {
			at.Disagreeing = append(at.Disagreeing, le)
		}
	}
	return at
}

// knownLeafKeys maps the coarse key of a disagreeing leaf event to the id of
// the known finding that lists it.
func knownLeafKeys(c *mon.Ctx) map[string]string {
	return leafKeyTable
}

// leafKeyTable is filled from known_findings.json by loadLeafKeys.
var leafKeyTable = map[string]string{}

// ---- known-finding tables for the containment case analyses ----

type leafKeySpec struct {
	LeafKeys []string `json:"leaf_keys"`
}

var (
	knownLoaded   bool
	corpusHashes  = map[string]map[uint64]struct{}{} // entry id -> snapshot
	leafEntryByFn = map[string]string{}              // "LCL" -> entry id, "RCS"/"RIS" -> entry id
)

// loadContainmentKnown reads the leaf keys and corpus snapshots of the known
// entries covering the property.
func loadContainmentKnown(c *mon.Ctx) {
	if knownLoaded {
		return
	}
	knownLoaded = true
	for _, e := range c.KnownEntries() {
		var spec leafKeySpec
		if len(e.Key) > 0 {
			jsonUnmarshal(e.Key, &spec)
		}
		for _, k := range spec.LeafKeys {
			leafKeyTable[k] = e.ID
		}
		if e.Corpus != "" {
			corpusHashes[e.ID] = mon.LoadHashes(e.Corpus)
		}
	}
}

// classifyWrong decides whether a wrong containment-type answer is a listed
// known finding.  It returns the entry id ("" = not known).
func classifyWrong(at attribution, corpus bool, h uint64) (id string, why string) {
	if corpus {
		for eid, set := range corpusHashes {
			if _, ok := set[h]; ok {
				return eid, "corpus snapshot"
			}
		}
		return "", "enumerated corpus case not in any snapshot"
	}
	if len(at.Disagreeing) == 0 {
		return "", "no leaf decision disagrees with its oracle: the composition logic is at fault"
	}
	id = ""
	for _, le := range at.Disagreeing {
		eid, ok := leafKeyTable[le.Key()]
		if !ok {
			return "", "leaf decision " + le.Key() + " is not a listed known site"
		}
		if id == "" || eid < id {
			id = eid
		}
	}
	return id, "all disagreeing leaf decisions are listed known sites"
}

// entryGuess names the finding a fresh disagreement would belong to (used
// only when a snapshot is being generated).
func entryGuess(at attribution) string {
	if len(at.Disagreeing) == 0 {
		return ""
	}
	for _, le := range at.Disagreeing {
		if le.Fn == "LCL" {
			return "F4"
		}
	}
	return "F5"
}

func jsonUnmarshal(b []byte, v interface{}) error { return json.Unmarshal(b, v) }

// descale returns a copy of the event with the encoding undone.
func descale(e *geometry.VerifEvent, enc FEnc) *geometry.VerifEvent {
	c := *e
	mp := func(p geometry.Point) geometry.Point {
		return geometry.Point{X: (p.X - enc.TX) / enc.Sc, Y: (p.Y - enc.TY) / enc.Sc}
	}
	c.Seg = geometry.Segment{A: mp(e.Seg.A), B: mp(e.Seg.B)}
	ser := func(s geometry.Series) []geometry.Point {
		n := s.NumPoints()
		ps := make([]geometry.Point, n)
		for i := 0; i < n; i++ {
			ps[i] = mp(s.PointAt(i))
		}
		return ps
	}
	if e.Ring != nil {
		// rebuilt as a closed series without index; only its points are read by the leaf oracle
		c.Ring = geometry.NewPoly(ser(e.Ring), nil, &geometry.IndexOptions{}).Exterior
	}
	if e.Line != nil {
		c.Line = geometry.NewLine(ser(e.Line), &geometry.IndexOptions{})
	}
	if e.Other != nil {
		c.Other = geometry.NewLine(ser(e.Other), &geometry.IndexOptions{})
	}
	return &c
}
