package props

import (
	"encoding/json"
	"fmt"
	"math"

	"github.com/tidwall/geojson/geometry"

	"verif/internal/exact"
	"verif/internal/mon"
)

// C18: derived ring attributes (convex, clockwise, segment count) are exact.

type c18Case struct {
	Points []jpt  `json:"points"`
	Closed bool   `json:"closed_series"`
	What   string `json:"what"`
	Got    string `json:"got"`
	Want   string `json:"want"`
}

// cyc returns the cyclic vertex sequence of a closed series given as raw
// points: the repeated closing vertex is not a vertex of its own.
func cyc(s []exact.P) []exact.P {
	if len(s) >= 3 && s[len(s)-1] == s[0] {
		return s[:len(s)-1]
	}
	return s
}

func turnSigns(v []exact.P) (pos, neg bool) {
	n := len(v)
	if n < 3 {
		return
	}
	for i := 0; i < n; i++ {
		switch exact.Orient(v[i], v[(i+1)%n], v[(i+2)%n]) {
		case 1:
			pos = true
		case -1:
			neg = true
		}
	}
	return
}

func collapse(v []exact.P) []exact.P {
	var out []exact.P
	for _, p := range v {
		if len(out) == 0 || out[len(out)-1] != p {
			out = append(out, p)
		}
	}
	for len(out) > 1 && out[len(out)-1] == out[0] {
		out = out[:len(out)-1]
	}
	return out
}

// convexReadings returns the convexity of the cyclic sequence under the raw
// reading and with consecutive duplicates collapsed.
func convexReadings(v []exact.P) (raw, col bool) {
	p, n := turnSigns(v)
	raw = !(p && n)
	p, n = turnSigns(collapse(v))
	col = !(p && n)
	return
}

func c18Check(c *mon.Ctx, s []exact.P) { c18CheckEnc(c, s, nil) }

// c18CheckEnc judges the series built from s under an optional fine affine
// encoding of the coordinates (the attributes are invariant under it).
func c18CheckEnc(c *mon.Ctx, s []exact.P, enc *FEnc) {
	gp := gpts(s)
	if enc != nil {
		gp = enc.Pts(s)
		c.Count("fine_encodings")
	}
	c.SetCase(func() interface{} { return map[string]interface{}{"points": jps(s)} })
	ok := c.Try(func() {
		poly := geometry.NewPoly(gp, nil, &geometry.IndexOptions{Kind: geometry.None})
		ring := poly.Exterior
		c.Eval()
		if enc == nil && len(s) >= 3 && len(s)%2 == 1 {
			// a moved ring keeps its attributes and its segments (exact translation)
			mv := poly.Move(3, -2).Exterior
			ref := geometry.NewPoly(movePts(gp, 3, -2), nil, &geometry.IndexOptions{Kind: geometry.None}).Exterior
			c.Count("moved_rings")
			if mv.NumSegments() != ref.NumSegments() || mv.Convex() != ref.Convex() || mv.Clockwise() != ref.Clockwise() || mv.Empty() != ref.Empty() || mv.NumPoints() != ref.NumPoints() {
				c.Violation("moved-ring", "a Move()d ring differs from the ring built at the moved coordinates", c18Case{Points: jps(s), Closed: true, What: "Move(3,-2)",
					Got: fmt.Sprint(mv.NumSegments(), mv.Convex(), mv.Clockwise(), mv.Empty()), Want: fmt.Sprint(ref.NumSegments(), ref.Convex(), ref.Clockwise(), ref.Empty())})
			} else {
				for i := 0; i < ref.NumSegments(); i++ {
					if mv.SegmentAt(i) != ref.SegmentAt(i) {
						c.Violation("moved-ring", "a Move()d ring has different segments", c18Case{Points: jps(s), Closed: true, What: fmt.Sprintf("Move(3,-2).SegmentAt(%d)", i)})
						break
					}
				}
			}
		}
		v := cyc(s)
		// counts and accessors
		if ring.NumPoints() != len(s) {
			c.Violation("numpoints", "", c18Case{Points: jps(s), Closed: true, What: "NumPoints", Got: fmt.Sprint(ring.NumPoints()), Want: fmt.Sprint(len(s))})
		}
		empty := len(s) < 3
		if ring.Empty() != empty {
			c.Violation("empty", "", c18Case{Points: jps(s), Closed: true, What: "Empty", Got: fmt.Sprint(ring.Empty()), Want: fmt.Sprint(empty)})
		}
		if !empty {
			wantSegs := len(s)
			if s[len(s)-1] == s[0] {
				wantSegs = len(s) - 1
			}
			if ring.NumSegments() != wantSegs {
				c.Violation("numsegments", "closed series", c18Case{Points: jps(s), Closed: true, What: "NumSegments", Got: fmt.Sprint(ring.NumSegments()), Want: fmt.Sprint(wantSegs)})
			} else {
				for i := 0; i < wantSegs; i++ {
					w := geometry.Segment{A: gp[i], B: gp[(i+1)%len(gp)]}
					if g := ring.SegmentAt(i); g != w {
						c.Violation("segmentat", "closed series", c18Case{Points: jps(s), Closed: true, What: fmt.Sprintf("SegmentAt(%d)", i), Got: fmt.Sprint(g), Want: fmt.Sprint(w)})
					}
				}
			}
			for i := range gp {
				if ring.PointAt(i) != gp[i] {
					c.Violation("pointat", "", c18Case{Points: jps(s), Closed: true, What: fmt.Sprintf("PointAt(%d)", i)})
				}
			}
			// clockwise: signed area negative
			cw := exact.Ring(v).Area2() < 0
			if ring.Clockwise() != cw || poly.Clockwise() != cw {
				c.Violation("clockwise", "clockwise flag differs from sign of the shoelace area", c18Case{Points: jps(s), Closed: true, What: "Clockwise", Got: fmt.Sprint(ring.Clockwise()), Want: fmt.Sprint(cw)})
			}
			raw, col := convexReadings(v)
			g := ring.Convex()
			if raw == col {
				c.Count("convex_strict")
				if g != raw {
					c.Violation("convex", "convexity flag differs from 'no two turns of opposite orientation' over the cyclic vertex sequence", c18Case{Points: jps(s), Closed: true, What: "Convex", Got: fmt.Sprint(g), Want: fmt.Sprint(raw)})
				}
				if !raw {
					c.Count("concave_seen")
				}
			} else {
				c.Count("convex_ambiguous_duplicates")
			}
			if exact.Ring(v).Area2() != 0 && len(collapse(v)) >= 3 {
				h := mon.NewH()
				for _, p := range s {
					h = h.I(p.X).I(p.Y)
				}
				c.NonTrivial(uint64(h))
			}
		}
		// open series
		line := geometry.NewLine(gp, &geometry.IndexOptions{Kind: geometry.None})
		wantSegs := len(s) - 1
		if wantSegs < 0 {
			wantSegs = 0
		}
		if line.NumSegments() != wantSegs {
			c.Violation("numsegments", "open series", c18Case{Points: jps(s), What: "NumSegments", Got: fmt.Sprint(line.NumSegments()), Want: fmt.Sprint(wantSegs)})
		} else {
			for i := 0; i < wantSegs; i++ {
				w := geometry.Segment{A: gp[i], B: gp[i+1]}
				if g := line.SegmentAt(i); g != w {
					c.Violation("segmentat", "open series", c18Case{Points: jps(s), What: fmt.Sprintf("SegmentAt(%d)", i), Got: fmt.Sprint(g), Want: fmt.Sprint(w)})
				}
			}
		}
		if line.Empty() != (len(s) < 2) || line.NumPoints() != len(s) {
			c.Violation("empty", "open series", c18Case{Points: jps(s), What: "Empty/NumPoints"})
		}
	})
	_ = ok
}

// c18Variants checks s as given, with an explicit closing vertex, and (for
// invariance) under every rotation of the start vertex and both closures.
func c18Variants(c *mon.Ctx, s []exact.P, rotations bool) {
	c18Check(c, s)
	if len(s) >= 3 && s[len(s)-1] != s[0] {
		c18Check(c, closeRing(s))
	}
	if !rotations {
		return
	}
	v := cyc(s)
	n := len(v)
	for r := 1; r < n; r++ {
		rot := make([]exact.P, 0, n+1)
		rot = append(rot, v[r:]...)
		rot = append(rot, v[:r]...)
		c18Check(c, rot)
		c18Check(c, closeRing(rot))
	}
}

func c18Run(c *mon.Ctx) {
	if c.Shard == 0 {
		c18Rects(c)
	}
	type space struct{ k, maxLen int }
	spaces := []space{{4, 5}}
	if c.Thorough() {
		spaces = []space{{4, 5}, {3, 6}, {5, 5}}
	}
	item := 0
	for _, sp := range spaces {
		k := int64(sp.k)
		k2 := k * k
		for L := 0; L <= sp.maxLen; L++ {
			total := int64(1)
			for i := 0; i < L; i++ {
				total *= k2
			}
			enc := encodings[(L+sp.k)%len(encodings)]
			seq := make([]exact.P, L)
			for code := int64(0); code < total; code++ {
				item++
				if !c.Mine(item) {
					continue
				}
				v := code
				for i := 0; i < L; i++ {
					d := v % k2
					v /= k2
					seq[i] = enc.P(d/k, d%k)
				}
				s := append([]exact.P{}, seq...)
				c18Variants(c, s, false)
				if code%100003 == 7 && c.WantSample() {
					c.Sample(map[string]interface{}{"kind": "lattice-sequence", "lattice": sp.k, "encoding": enc.Name, "points": jps(s)})
				}
			}
		}
	}
	c.Count("lattice_done")
	// random polygons: star-shaped with one vertex pulled in (single reflex
	// vertex) started at every index, collinear and duplicate runs, under
	// random encodings
	n := c.Pick(40000, 1500000) / c.NShards
	r := c.Rng
	for i := 0; i < n; i++ {
		enc := encodings[r.Intn(len(encodings))]
		m := 3 + r.Intn(10)
		var s []exact.P
		switch r.Intn(3) {
		case 0: // convex-ish polygon on a circle-like lattice walk, one reflex vertex
			base := [][2]int64{{0, 3}, {1, 1}, {3, 0}, {6, 0}, {8, 1}, {9, 3}, {9, 6}, {8, 8}, {6, 9}, {3, 9}, {1, 8}, {0, 6}}
			m = 4 + r.Intn(9)
			idx := r.Perm(12)[:m]
			sortInts(idx)
			for _, j := range idx {
				s = append(s, enc.P(base[j][0], base[j][1]))
			}
			// pull one vertex to the centre-ish: makes exactly one reflex vertex (or none)
			j := r.Intn(len(s))
			if r.Intn(4) != 0 {
				s[j] = enc.P(4+int64(r.Intn(2)), 4+int64(r.Intn(2)))
			}
		case 1: // arbitrary with duplicate and collinear runs
			for len(s) < m {
				p := enc.P(int64(r.Intn(6)), int64(r.Intn(6)))
				rep := 1
				if r.Intn(3) == 0 {
					rep = 1 + r.Intn(3)
				}
				for k := 0; k < rep; k++ {
					s = append(s, p)
				}
			}
		default: // collinear runs along a rectangle-like outline
			x, y := int64(0), int64(0)
			dirs := [][2]int64{{1, 0}, {0, 1}, {-1, 0}, {0, -1}}
			for d := 0; d < 4; d++ {
				steps := 1 + r.Intn(3)
				for k := 0; k < steps; k++ {
					s = append(s, enc.P(x, y))
					st := int64(1 + r.Intn(2))
					if k == steps-1 {
						// finish the side
						switch d {
						case 0:
							x = 6
						case 1:
							y = 6
						case 2:
							x = 0
						case 3:
							y = 0
						}
					} else {
						x += dirs[d][0] * st
						y += dirs[d][1] * st
						if x > 5 {
							x = 5
						}
						if y > 5 {
							y = 5
						}
						if x < 1 && d == 2 {
							x = 1
						}
						if y < 1 && d == 3 {
							y = 1
						}
					}
				}
			}
		}
		c18Variants(c, s, true)
		fe := fineEncs[i%len(fineEncs)]
		c18CheckEnc(c, s, &fe)
		if len(s) >= 3 && s[len(s)-1] != s[0] {
			c18CheckEnc(c, closeRing(s), &fe)
		}
		c.Count("random_rings")
		if i < 2 && c.WantSample() {
			c.Sample(map[string]interface{}{"kind": "random-ring-all-rotations", "encoding": enc.Name, "points": jps(s)})
		}
	}
}

func sortInts(a []int) {
	for i := 1; i < len(a); i++ {
		for j := i; j > 0 && a[j] < a[j-1]; j-- {
			a[j], a[j-1] = a[j-1], a[j]
		}
	}
}

func c18Replay(kind string, raw json.RawMessage) (bool, string) {
	var cs c18Case
	if err := json.Unmarshal(raw, &cs); err != nil {
		return false, err.Error()
	}
	var s []exact.P
	for _, j := range cs.Points {
		p, ok := exact.FromFloat(j[0], j[1])
		if !ok {
			return false, "outside exact domain"
		}
		s = append(s, p)
	}
	rc := &mon.Ctx{}
	_ = rc
	if len(s) < 3 {
		return false, "empty ring"
	}
	ring := geometry.NewPoly(gpts(s), nil, &geometry.IndexOptions{}).Exterior
	v := cyc(s)
	rawc, col := convexReadings(v)
	cw := exact.Ring(v).Area2() < 0
	bad := ring.Clockwise() != cw || (rawc == col && ring.Convex() != rawc)
	return bad, fmt.Sprintf("Convex=%v (want %v/%v) Clockwise=%v (want %v) NumSegments=%d", ring.Convex(), rawc, col, ring.Clockwise(), cw, ring.NumSegments())
}

// c18Rects: a geometry.Rect used as a series is the closed ring of its four
// corners with the first repeated: five points, four segments, convex, not
// clockwise, also when it has collapsed to a line or a single position.
func c18Rects(c *mon.Ctx) {
	vals := []float64{-3, -0.5, 0, 0, 1, 2, 2, 7.25, 1024}
	for _, x0 := range vals {
		for _, y0 := range vals {
			for _, w := range []float64{0, 0, 1, 5.5} {
				for _, h := range []float64{0, 0, 2, 0.25} {
					rc := geometry.Rect{Min: geometry.Point{X: x0, Y: y0}, Max: geometry.Point{X: x0 + w, Y: y0 + h}}
					c.SetCase(func() interface{} { return c18Case{What: "Rect as series", Got: fmt.Sprint(rc)} })
					c.Try(func() {
						var ser geometry.Series = rc
						corners := []geometry.Point{rc.Min, {X: rc.Max.X, Y: rc.Min.Y}, rc.Max, {X: rc.Min.X, Y: rc.Max.Y}, rc.Min}
						c.Eval()
						c.Count("rect_series")
						bad := func(what, got, want string) {
							c.Violation("rect-series "+what, "a Rect read as a series does not follow the rule for a closed ring of its corners", c18Case{Closed: true, What: what + " of " + fmt.Sprint(rc), Got: got, Want: want})
						}
						if ser.NumPoints() != 5 {
							bad("NumPoints", fmt.Sprint(ser.NumPoints()), "5")
							return
						}
						if ser.NumSegments() != 4 {
							bad("NumSegments", fmt.Sprint(ser.NumSegments()), "4")
							return
						}
						for i := 0; i < 5; i++ {
							if ser.PointAt(i) != corners[i] {
								bad("PointAt", fmt.Sprint(i, ser.PointAt(i)), fmt.Sprint(corners[i]))
							}
						}
						for i := 0; i < 4; i++ {
							if sg := ser.SegmentAt(i); sg.A != corners[i] || sg.B != corners[i+1] {
								bad("SegmentAt", fmt.Sprint(i, sg), fmt.Sprint(corners[i], corners[i+1]))
							}
						}
						if !ser.Convex() || ser.Clockwise() {
							bad("flags", fmt.Sprint("convex=", ser.Convex(), " clockwise=", ser.Clockwise()), "convex=true clockwise=false")
						}
						// the same answers as the ring built from the corner points
						ring := geometry.NewPoly(corners, nil, nil).Exterior
						if ring.NumSegments() != ser.NumSegments() || ring.Convex() != ser.Convex() || (w > 0 && h > 0 && ring.Clockwise() != ser.Clockwise()) {
							bad("ring of the corners", fmt.Sprint(ser.NumSegments(), ser.Convex(), ser.Clockwise()), fmt.Sprint(ring.NumSegments(), ring.Convex(), ring.Clockwise()))
						}
						n := 0
						ser.Search(geometry.Rect{Min: geometry.Point{X: math.Inf(-1), Y: math.Inf(-1)}, Max: geometry.Point{X: math.Inf(1), Y: math.Inf(1)}}, func(geometry.Segment, int) bool { n++; return true })
						if n != 4 {
							bad("Search(everything)", fmt.Sprint(n, " segments"), "4 segments")
						}
					})
				}
			}
		}
	}
}

func init() {
	mon.Register(&mon.Prop{
		ID:          "C18",
		Rule:        "exhaustive: every vertex sequence of length 0..5 on the 4x4 lattice (thorough: also length<=6 on 3x3 and <=5 on 5x5), each as given and with an explicit closing vertex, as closed ring and as open series, under a rotating affine re-encoding; random: rings with a single reflex vertex, duplicate runs and collinear runs, checked at every rotation of the start vertex and both closures. Non-trivial = distinct sequence with >=3 distinct cyclic vertices and non-zero area.",
		Assumptions: []string{"coordinates in the exact domain", "where consecutive duplicate vertices make 'turn' ambiguous the flag may follow either the raw-triple or the duplicates-collapsed reading (counted as convex_ambiguous_duplicates, not asserted strictly)"},
		Exhaustive:  func(string) bool { return true },
		Run:         c18Run,
		MustSee:     []string{"rect_series", "lattice_done", "convex_strict", "concave_seen", "random_rings", "fine_encodings", "moved_rings"},
		Replay:      c18Replay,
	})
}

func movePts(ps []geometry.Point, dx, dy float64) []geometry.Point {
	out := make([]geometry.Point, len(ps))
	for i, p := range ps {
		out[i] = geometry.Point{X: p.X + dx, Y: p.Y + dy}
	}
	return out
}
