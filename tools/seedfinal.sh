#!/bin/bash
# usage: tools/seedfinal.sh [seed ids...]   -- the recording pass over the kept seeded changes: for each one apply it to /repo,
# run the quick check of its own property and every quick check its meta.json mentions, undo it, and rewrite the
# quick_checks_that_report_it / quick_checks_run_that_stay_silent lists in meta.json from what was observed.
cd "$(dirname "$0")/.."
SEEDS="$@"; [ -z "$SEEDS" ] && SEEDS=$(ls seeded | grep '^C')
HC=$(git rev-parse --short HEAD)
for s in $SEEDS; do
  IDS=$(python3 - "$s" <<'PY'
import json,sys
s=sys.argv[1]; m=json.load(open(f'seeded/{s}/meta.json'))
ids=[s[:3]]
for k in ('quick_checks_that_report_it','quick_checks_run_that_stay_silent'):
    ids+=m.get(k,[])
ids+=list(m.get('first_pass_before_strengthening',{}).keys())
out=[]
for i in ids:
    if i not in out: out.append(i)
print(' '.join(out))
PY
)
  [ -n "$(git -C /repo status --short)" ] && { echo "/repo not clean"; exit 3; }
  git -C /repo apply "$PWD/seeded/$s/patch.diff" || { echo "$s: patch does not apply"; continue; }
  RES=""
  for id in $IDS; do
    ./check.sh $id quick >/tmp/seedfinal.out 2>&1; RC=$?
    RES="$RES $id:$RC"
  done
  git -C /repo checkout -- .
  python3 - "$s" "$HC" $RES <<'PY'
import json,sys
s,hc=sys.argv[1],sys.argv[2]; p=f'seeded/{s}/meta.json'; m=json.load(open(p))
rep,sil,odd=[],[],[]
for r in sys.argv[3:]:
    i,rc=r.split(':')
    (rep if rc=='1' else sil if rc=='0' else odd).append(i)
m['quick_checks_that_report_it']=rep; m['quick_checks_run_that_stay_silent']=sil
m['final_pass']={'harness_commit':hc,'how':'git -C /repo apply patch.diff; ./check.sh <ID> quick; git -C /repo checkout -- .  (tools/seedfinal.sh)'}
if odd: m['final_pass']['harness_errors']=odd
json.dump(m,open(p,'w'),indent=1)
PY
  echo "$s ->$RES"
done
git -C /repo status --short | head -3
