#!/bin/sh
# usage: ./replay.sh <replay file>   -- re-executes one recorded case against /repo's working tree
cd "$(dirname "$0")" || exit 2
export GOFLAGS=-mod=mod GOPROXY=off GOSUMDB=off GOTOOLCHAIN=local
mkdir -p bin
BIN=bin/verif.r$$
trap 'rm -f "$BIN"' EXIT INT TERM
go build -tags verif -o "$BIN" ./cmd/verif || { echo "HARNESS-ERROR build failed"; exit 2; }
"$BIN" replay "$1"
