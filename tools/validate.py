#!/usr/bin/env python3
"""Validates MANIFEST.json and every evidence file against the given schemas (run with python3-vt)."""
import json, glob, sys, jsonschema
ok = True
try:
    jsonschema.validate(json.load(open('MANIFEST.json')), json.load(open('/root/.vp/MANIFEST.schema.json')))
except Exception as e:
    ok = False; print("MANIFEST:", e)
sch = json.load(open('/root/.vp/EVIDENCE.schema.json'))
for f in sorted(glob.glob('evidence/*.json')):
    try:
        jsonschema.validate(json.load(open(f)), sch)
    except Exception as e:
        ok = False; print(f, str(e)[:300])
print("schemas ok" if ok else "SCHEMA ERRORS")
sys.exit(0 if ok else 1)
